//go:build verifoverlay

package main

import (
	"verif/sim/kernel"
)

// The race-oracle canary.  Two simulated callers run under the serialising
// scheduler and write either one shared variable or one variable each, with
// a hand-off in between.  The scheduler's hand-offs are hidden from the race
// detector, so the shared variant MUST be reported (otherwise the C20 race
// oracle has gone blind, e.g. after a toolchain change) and the private
// variant MUST NOT (otherwise the harness itself would raise alarms).

var canaryShared int

//go:noinline
func canaryTouch(p *int) { *p++ }

var canaryBusy [64]int

//go:noinline
func canaryWork(i int) { canaryBusy[i%64] += i }

// runCanaryStale: one caller writes the shared variable and then keeps
// running for a while (50 000 calls, about 200 000 instrumented events: with
// the detector's default history this is already forgotten, with
// history_size=7 it is not; beyond roughly half a million events even the
// maximum history forgets - a stated limit of the race oracle);
// the other caller, stalled meanwhile, touches the variable at the very
// end.  The race detector only reports a race if it can still reconstruct
// the earlier access from its per-goroutine history, so this variant fails
// unless that history is large enough (GORACE history_size) for the stalls
// the scheduler imposes.
func runCanaryStale() {
	t := kernel.NewTape(1)
	cfg := kernel.SchedCfg{Policy: kernel.PolStall, Victim: 0, Mean: 1 << 30, MaxSteps: 1 << 40}
	s := kernel.NewSched(t, cfg, 4)
	s.Go(func(tk *kernel.Task) { // starved until the other caller is done
		s.Yield(1)
		canaryTouch(&canaryShared)
	})
	s.Go(func(tk *kernel.Task) {
		canaryTouch(&canaryShared)
		for i := 0; i < 50_000; i++ {
			canaryWork(i)
		}
		s.Yield(1)
	})
	s.Run()
}

func runCanary(shared bool) {
	t := kernel.NewTape(1)
	cfg := kernel.SchedCfg{Policy: kernel.PolRR, Mean: 1, MaxSteps: 1000}
	s := kernel.NewSched(t, cfg, 4)
	var private [2]int
	for i := 0; i < 2; i++ {
		i := i
		s.Go(func(tk *kernel.Task) {
			for k := 0; k < 3; k++ {
				if shared {
					canaryTouch(&canaryShared)
				} else {
					canaryTouch(&private[i])
				}
				s.Yield(1)
			}
		})
	}
	s.Run()
}
