//go:build verifoverlay

package main

import (
	"verif/sim/kernel"
)

// The race-oracle canary.  Two simulated callers run under the serialising
// scheduler and write either one shared variable or one variable each, with
// a hand-off in between.  The scheduler's hand-offs are hidden from the race
// detector, so the shared variant MUST be reported (otherwise the C20 race
// oracle has gone blind, e.g. after a toolchain change) and the private
// variant MUST NOT (otherwise the harness itself would raise alarms).

var canaryShared int

//go:noinline
func canaryTouch(p *int) { *p++ }

func runCanary(shared bool) {
	t := kernel.NewTape(1)
	cfg := kernel.SchedCfg{Policy: kernel.PolRR, Mean: 1, MaxSteps: 1000}
	s := kernel.NewSched(t, cfg, 4)
	var private [2]int
	for i := 0; i < 2; i++ {
		i := i
		s.Go(func(tk *kernel.Task) {
			for k := 0; k < 3; k++ {
				if shared {
					canaryTouch(&canaryShared)
				} else {
					canaryTouch(&private[i])
				}
				s.Yield(1)
			}
		})
	}
	s.Run()
}
