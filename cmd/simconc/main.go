//go:build verifoverlay

// simconc executes runs of the `conc` world.  It must be built with the
// overlay produced by cmd/instrument (which supplies the yield points and
// the virtual package verifsim):
//
//	go build -tags verif,verifoverlay -overlay <dir>/overlay.json [-race] ./cmd/simconc
package main

import (
	"bufio"
	"encoding/json"
	"flag"
	"fmt"
	"os"
	"runtime"
	"time"

	"gitlab.com/yawning/secp256k1-voi/verifsim"

	"verif/sim/kernel"
	"verif/sim/ref"
	"verif/sim/replay"
	"verif/sim/worlds/conc"
)

func runOne(prop, variant string, verifSeed uint64, idx, nSites int, src map[string][]kernel.Choice, trace bool) *kernel.Result {
	res := &kernel.Result{World: "conc", Prop: prop, Variant: variant, VerifSeed: verifSeed, Idx: idx}
	res.RunSeed = kernel.RunSeed(verifSeed, "conc", idx)
	var t *kernel.Tape
	if src != nil {
		t = kernel.NewReplayTape(res.RunSeed, src)
	} else {
		t = kernel.NewTape(res.RunSeed)
	}
	run := kernel.NewRun(t, res, trace)
	start := time.Now()
	conc.Run(run, conc.Params{NSites: nSites, Idx: idx, SetHook: func(h func(uint32)) { verifsim.Hook = h }, SetBlockHook: func(h func(uint32)) { verifsim.ResetPending(); verifsim.BlockHook = h }, SetSyncHook: func(h func(uint32)) { verifsim.SyncHook = h }})
	run.Finish()
	res.WallUS = time.Since(start).Microseconds()
	res.Tape = t.Record()
	return res
}

func main() {
	_ = flag.String("world", "conc", "ignored (always conc)")
	prop := flag.String("prop", "C20", "property")
	variant := flag.String("variant", "asm", "build variant label")
	seed := flag.Uint64("seed", 1, "VERIF_SEED")
	from := flag.Int("from", 0, "first run index")
	n := flag.Int("n", 1, "number of runs")
	nSites := flag.Int("sites", 4096, "number of yield sites (from the instrumenter)")
	replayFile := flag.String("replay", "", "replay file")
	trace := flag.Bool("trace", false, "include the readable trace")
	keepTape := flag.Bool("tape", false, "include the tape of every run")
	canary := flag.String("canary", "", "race-oracle canary: 'shared' (two tasks write one variable: the race detector must halt the process) or 'private' (each task writes its own: it must not)")
	selftest := flag.Bool("selftest", false, "reference self-test only")
	noSelftest := flag.Bool("noselftest", false, "skip the reference self-test")
	flag.Parse()
	if *selftest || !*noSelftest {
		if err := ref.SelfTest(); err != nil {
			fmt.Fprintf(os.Stderr, "simconc: reference self-test FAILED: %v\n", err)
			os.Exit(2)
		}
	}
	if *selftest {
		return
	}
	if *canary == "stale" {
		// The detector recycles the globally oldest trace part whenever ANY
		// goroutine of the process fills its own quota, so a goroutine the
		// library starts by itself (an init() that unpacks tables in the
		// background) can evict the canary's history.  Give such goroutines
		// up to three seconds to finish, and say whether any was still there:
		// the driver treats a failure with company as a stated limit of the
		// oracle, a failure without as a broken set-up.
		for i := 0; i < 300 && runtime.NumGoroutine() > 1; i++ {
			time.Sleep(10 * time.Millisecond)
		}
		fmt.Printf("canary: %d goroutines besides the canary's own at its start\n", runtime.NumGoroutine()-1)
		runCanaryStale()
		fmt.Println("canary finished without a race report")
		return
	}
	if *canary != "" {
		runCanary(*canary == "shared")
		fmt.Println("canary finished without a race report")
		return
	}
	out := bufio.NewWriter(os.Stdout)
	defer out.Flush()
	enc := json.NewEncoder(out)
	if *replayFile != "" {
		rf, err := replay.Load(*replayFile)
		if err != nil {
			fmt.Fprintf(os.Stderr, "simconc: %v\n", err)
			os.Exit(2)
		}
		fmt.Fprintf(out, "{\"start\":%d}\n", rf.Idx)
		out.Flush()
		for i := rf.Idx - rf.Prefix; i < rf.Idx; i++ {
			if conc.SaturateBefore(rf.Idx-rf.Prefix, i) {
				conc.Saturate()
			}
			runOne(rf.Prop, *variant, rf.VerifSeed, i, *nSites, nil, false) // process history only
		}
		if conc.SaturateBefore(rf.Idx-rf.Prefix, rf.Idx) {
			conc.Saturate()
		}
		res := runOne(rf.Prop, *variant, rf.VerifSeed, rf.Idx, *nSites, rf.Tape, true)
		res.JobFrom = rf.Idx - rf.Prefix
		_ = enc.Encode(res)
		return
	}
	// what the process did before its first simulated run is a dimension
	// too: every third job starts with a past that fills whatever bounded
	// memo, ring or table a library keeps
	saturated := conc.SaturateFor(*from)
	if saturated {
		// (attributed to the job's first run if the race detector or the
		// runtime stops the process in here)
		fmt.Fprintf(out, "{\"start\":%d}\n", *from)
		out.Flush()
	}
	for i := *from; i < *from+*n; i++ {
		// the marker tells the driver which run was in flight if the race
		// detector halts the process
		fmt.Fprintf(out, "{\"start\":%d}\n", i)
		out.Flush()
		if conc.SaturateBefore(*from, i) {
			conc.Saturate()
		}
		res := runOne(*prop, *variant, *seed, i, *nSites, nil, *trace)
		if len(res.Violations) == 0 && !*keepTape {
			res.Tape = nil
		}
		res.JobFrom = *from
		if saturated {
			res.Faults["process_with_a_cache_saturating_past"]++
		}
		_ = enc.Encode(res)
		out.Flush()
		for _, v := range res.Violations {
			if v.Class == "deadlock" {
				// the tasks of this run are still blocked and hold whatever
				// they hold: nothing further can be learnt in this process
				out.Flush()
				os.Exit(3)
			}
		}
	}
}
