//go:build !verifoverlay

package main

import (
	"fmt"
	"os"
)

func main() {
	fmt.Fprintln(os.Stderr, "simconc must be built with -tags verif,verifoverlay -overlay <overlay.json> (see /verif/check)")
	os.Exit(2)
}
