// exprace2 experiment: bisect
package main

import (
	"fmt"
	"os"
	"sync"

	"verif/sim/kernel"
)

type batched struct {
	mu    sync.Mutex
	buf   [512]byte
	avail int
}

func main() {
	t := kernel.NewTape(1)
	cfg := kernel.SchedCfg{Policy: kernel.PolRR, Mean: 1 << 30, MaxSteps: 1 << 30, SyncEvery: 1}
	s := kernel.NewSched(t, cfg, 8)
	mode := os.Getenv("MODE")
	src := &batched{}
	read := func(b []byte) {
		n := len(b)
		if mode == "sync1" || mode == "full" {
			s.SyncPoint(1)
		}
		src.mu.Lock()
		if src.avail < n {
			src.avail = len(src.buf)
		}
		off := len(src.buf) - src.avail
		chunk := src.buf[off : off+n]
		src.avail -= n
		src.mu.Unlock()
		s.SyncPoint(2)
		copy(b, chunk)
		for i := range chunk {
			chunk[i] = 0
		}
	}
	s.TestNapAt = 1
	if mode == "sync1" || mode == "full" {
		s.TestNapAt = 3
	}
	s.Go(func(tk *kernel.Task) {
		var b [32]byte
		read(b[:])
		fmt.Println("A got first byte", b[0])
	})
	s.Go(func(tk *kernel.Task) {
		var b [32]byte
		for k := 0; k < 16; k++ {
			read(b[:])
			for i := 0; i < 40000; i++ {
				s.Yield(3)
			}
		}
		fmt.Println("B done")
	})
	for i := range src.buf {
		src.buf[i] = 7
	}
	s.Run()
	fmt.Println("no race reported; naps", s.Naps, "syncswitches", s.SyncSwitches)
}
