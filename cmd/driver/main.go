// driver: `driver check <ID> <quick|thorough>` | `driver replay <file>` |
// `driver selftest`.
package main

import (
	"errors"
	"fmt"
	"os"
	"strconv"

	"verif/sim/driver"
)

func usage() {
	fmt.Fprintln(os.Stderr, "usage: check <ID> <quick|thorough> | check --replay <file> | check --selftest")
	os.Exit(2)
}

func main() {
	if len(os.Args) < 3 {
		usage()
	}
	verifDir := os.Getenv("VERIF_DIR")
	if verifDir == "" {
		verifDir = "/verif"
	}
	seed := uint64(1)
	if s := os.Getenv("VERIF_SEED"); s != "" {
		if v, err := strconv.ParseUint(s, 10, 64); err == nil {
			seed = v
		} else if v, err := strconv.ParseInt(s, 10, 64); err == nil {
			seed = uint64(v)
		}
	}
	var code int
	var err error
	switch os.Args[1] {
	case "check":
		if len(os.Args) < 4 {
			usage()
		}
		tier := os.Args[3]
		if t := os.Getenv("VERIF_TIER"); t == "quick" || t == "thorough" {
			// the command line decides; VERIF_TIER is informational only
			_ = t
		}
		if tier != "quick" && tier != "thorough" {
			usage()
		}
		code, err = driver.Check(verifDir, os.Args[2], tier, seed)
	case "replay":
		code, err = driver.Replay(verifDir, os.Args[2])
	case "selftest":
		code, err = driver.SelfTest(verifDir, os.Args[2], seed)
	default:
		usage()
	}
	if err != nil {
		var he *driver.HarnessError
		if errors.As(err, &he) {
			fmt.Fprintf(os.Stderr, "HARNESS-ERROR: %s\n", he.Msg)
		} else {
			fmt.Fprintf(os.Stderr, "HARNESS-ERROR: %v\n", err)
		}
		os.Exit(2)
	}
	os.Exit(code)
}
