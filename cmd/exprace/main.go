//go:build verifoverlay

// exprace: experiment - one caller takes a single nil-rand Schnorr signature,
// another a burst of 20, under forced switches at synchronisation points.
package main

import (
	"fmt"
	"os"

	"gitlab.com/yawning/secp256k1-voi/secec/bitcoin"
	"gitlab.com/yawning/secp256k1-voi/verifsim"

	"verif/sim/kernel"
)

func main() {
	key, _ := bitcoin.NewSchnorrPrivateKey([]byte{31: 7})
	msg := []byte("m")
	for seed := uint64(1); seed <= 3; seed++ {
		t := kernel.NewTape(seed)
		cfg := kernel.DrawSchedCfg(t, 2, 400000, 17000)
		cfg.SyncEvery = 1
		cfg.Policy = kernel.PolRR
		cfg.Mean = 1 << 30
		s := kernel.NewSched(t, cfg, 4096)
		s.TestNapAt = 3
		s.Go(func(tk *kernel.Task) { key.Sign(nil, msg, nil) })
		s.Go(func(tk *kernel.Task) {
			for i := 0; i < 20; i++ {
				key.Sign(nil, msg, nil)
			}
		})
		verifsim.Hook, verifsim.BlockHook, verifsim.SyncHook = s.Yield, s.Blocked, s.SyncPoint
		s.Run()
		verifsim.Hook, verifsim.BlockHook, verifsim.SyncHook = nil, nil, nil
		fmt.Fprintf(os.Stderr, "seed %d policy %d syncswitches %d naps %d steps %d\n", seed, cfg.Policy, s.SyncSwitches, s.Naps, s.Steps)
	}
}
