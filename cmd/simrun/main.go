// simrun executes simulated runs of the single-task worlds (sign, signenum,
// pool).  One process = one batch of run indices; one JSON line per run on
// stdout.
package main

import (
	"bufio"
	"encoding/json"
	"flag"
	"fmt"
	"os"
	"runtime/debug"
	"strconv"
	"time"

	"verif/sim/kernel"
	"verif/sim/ref"
	"verif/sim/replay"
	"verif/sim/worlds/lookup"
	"verif/sim/worlds/pool"
	"verif/sim/worlds/sign"
)

// withFirstRunEntropy runs f, the first history of the process, and then
// ends the broken-system-entropy fault if the driver injected it (see
// kernel.SystemEntropyFor).
func withFirstRunEntropy(f func()) {
	defer kernel.RestoreSystemEntropy()
	f()
}

func runOne(world, prop, variant string, verifSeed uint64, idx int, src map[string][]kernel.Choice, trace bool) *kernel.Result {
	res := &kernel.Result{World: world, Prop: prop, Variant: variant, VerifSeed: verifSeed, Idx: idx}
	res.RunSeed = kernel.RunSeed(verifSeed, world, idx)
	var t *kernel.Tape
	if src != nil {
		t = kernel.NewReplayTape(res.RunSeed, src)
	} else {
		t = kernel.NewTape(res.RunSeed)
	}
	run := kernel.NewRun(t, res, trace)
	start := time.Now()
	// A history whose library call never returns (a changed library may spin:
	// a signing loop that cannot succeed, a retry without a limit) must not
	// hang the check: the world runs on a goroutine of its own and is given
	// hangLimit of wall-clock time.  A history takes milliseconds to a few
	// seconds; on the unchanged tree the limit is never reached.
	finished := make(chan struct{})
	go func() {
		defer close(finished)
		runWorld(run, world, prop, idx)
	}()
	select {
	case <-finished:
	case <-time.After(hangLimit):
		run.Violate(prop, "call-does-not-return", world, res.Ops, "a library call made at step %d of this history did not return within %v (the steps before it are in the trace); the process is abandoned", res.Ops, hangLimit)
		run.Finish()
		res.WallUS = time.Since(start).Microseconds()
		res.Tape = t.Record()
		res.Cfg["abandoned"] = true
		return res
	}
	run.Finish()
	res.WallUS = time.Since(start).Microseconds()
	res.Tape = t.Record()
	return res
}

// hangLimit is the wall-clock budget of one history (VERIF_HANG_S overrides
// it, for testing the watchdog itself).
var hangLimit = func() time.Duration {
	if n, err := strconv.Atoi(os.Getenv("VERIF_HANG_S")); err == nil && n > 0 {
		return time.Duration(n) * time.Second
	}
	return 180 * time.Second
}()

func runWorld(run *kernel.Run, world, prop string, idx int) {
	func() {
		defer func() {
			if e := recover(); e != nil {
				// A panic that escaped the world's own protection.  Every
				// call a world makes with arguments the library may refuse
				// is wrapped; what arrives here from inside the library was
				// raised on a call with valid arguments - the call the
				// property is about did not return what it promises.  A
				// panic raised in the harness itself is a harness defect.
				stack := string(debug.Stack())
				if fn, inLib := kernel.PanicOrigin(stack); inLib && prop != "" {
					run.Violate(prop, "library-panic", fn, run.Res.Ops, "a library call with valid arguments panicked: %v (raised in %s)\n%s", e, fn, stack)
				} else {
					run.Violate("HARNESS", "harness-panic", "simrun", 0, "%v\n%s", e, stack)
				}
			}
		}()
		switch world {
		case "sign":
			sign.Run(run, prop)
		case "signenum":
			sign.RunEnum(run, prop, idx)
		case "pool":
			pool.Run(run, prop)
		case "lookup":
			lookup.Run(run)
		default:
			fmt.Fprintf(os.Stderr, "simrun: unknown world %q\n", world)
			os.Exit(2)
		}
	}()
}

func main() {
	world := flag.String("world", "sign", "world: sign | signenum | pool")
	prop := flag.String("prop", "", "property the workload is tuned for")
	variant := flag.String("variant", "asm", "build variant label")
	seed := flag.Uint64("seed", 1, "VERIF_SEED")
	from := flag.Int("from", 0, "first run index")
	n := flag.Int("n", 1, "number of runs")
	replayFile := flag.String("replay", "", "replay file")
	trace := flag.Bool("trace", false, "include the readable trace of every run")
	keepTape := flag.Bool("tape", false, "include the tape of every run (always included for violating runs)")
	selftest := flag.Bool("selftest", false, "run the reference-model self-test and exit")
	noSelftest := flag.Bool("noselftest", false, "skip the reference self-test (the driver has run it once for this check)")
	flag.Parse()

	if *selftest || !*noSelftest {
		if err := ref.SelfTest(); err != nil {
			fmt.Fprintf(os.Stderr, "simrun: reference self-test FAILED: %v\n", err)
			os.Exit(2)
		}
	}
	if *selftest {
		fmt.Println("reference self-test ok")
		return
	}
	out := bufio.NewWriter(os.Stdout)
	defer out.Flush()
	enc := json.NewEncoder(out)

	if *replayFile != "" {
		rf, err := replay.Load(*replayFile)
		if err != nil {
			fmt.Fprintf(os.Stderr, "simrun: %v\n", err)
			os.Exit(2)
		}
		if ((rf.Idx-rf.Prefix)/7)%3 == 1 {
			sign.VerifyFirstWarmUp() // as the job this run belonged to did
		}
		for i := rf.Idx - rf.Prefix; i < rf.Idx; i++ {
			run := func() { runOne(rf.World, rf.Prop, *variant, rf.VerifSeed, i, nil, false) } // process history only
			if i == rf.Idx-rf.Prefix {
				withFirstRunEntropy(run)
			} else {
				run()
			}
		}
		var res *kernel.Result
		last := func() { res = runOne(rf.World, rf.Prop, *variant, rf.VerifSeed, rf.Idx, rf.Tape, true) }
		if rf.Prefix == 0 {
			withFirstRunEntropy(last)
		} else {
			last()
		}
		res.JobFrom = rf.Idx - rf.Prefix
		_ = enc.Encode(res)
		if res.Cfg["abandoned"] == true {
			out.Flush()
			os.Exit(3)
		}
		return
	}
	// The order in which a process first touches the library is a dimension
	// too: every third job starts with verifications (before any key is
	// derived or anything is signed), the others with whatever the first
	// history does.
	if (*from/7)%3 == 1 {
		sign.VerifyFirstWarmUp()
	}
	for i := *from; i < *from+*n; i++ {
		var res *kernel.Result
		first := func() { res = runOne(*world, *prop, *variant, *seed, i, nil, *trace) }
		if i == *from {
			withFirstRunEntropy(first)
			if m := os.Getenv("VERIF_SYSTEM_ENTROPY"); m != "" {
				res.Faults["system_entropy_source_broken_while_the_process_starts:"+m]++
			}
		} else {
			first()
		}
		if len(res.Violations) > 0 && !*trace && res.Cfg["abandoned"] != true {
			// re-execute the recorded tape with tracing on (pure function of the tape)
			res2 := runOne(*world, *prop, *variant, *seed, i, res.Tape, true)
			res2.Cfg["replayed_for_trace"] = true
			if res2.Digest != res.Digest {
				// The second execution in the same process did not repeat the
				// first: the library keeps state between calls (a pool, a
				// cache).  On the unchanged tree this cannot happen (see
				// ./check --selftest); keep what was observed, with the trace
				// of the second execution for orientation, and let the driver
				// try to reproduce it in fresh processes.
				res.Cfg["trace_rerun_digest_differs"] = true
				res.Trace = append([]string{"# trace of a second execution of the same tape in the same process (its digest differs from the first: the library kept state)"}, res2.Trace...)
			} else {
				res = res2
			}
		}
		if len(res.Violations) == 0 && !*keepTape {
			res.Tape = nil
		}
		res.JobFrom = *from
		_ = enc.Encode(res)
		if res.Cfg["abandoned"] == true {
			// a goroutine of this process is still inside the library
			out.Flush()
			os.Exit(3)
		}
	}
}
