#!/bin/bash
# regenerates /verif/seeded/<id>/ from scripts/seeded_table.txt, the agents' outputs under /tmp/wt and the eval logs under /tmp/eval
cd "$(dirname "$0")/.."
grep -v '^#' scripts/seeded_table.txt | while read id wt k prop pkg checks race needs; do
  [ -z "$id" ] && continue
  log=/tmp/eval/$wt-$k.log
  det=$(python3 - "$log" <<'PY'
import re,sys
try: t=open(sys.argv[1],errors='replace').read()
except Exception: print('none'); sys.exit()
d=[]
for m in re.finditer(r"== check (\S+) \S+ against patched copy\n(.*?)(?=== check|\Z)", t, re.S):
    ex=re.findall(r"check-exit=(\d+)", m.group(2))
    if ex and ex[-1]=='1': d.append(m.group(1))
print(','.join(d) if d else 'none')
PY
)
  R=""; [ "$race" = "race" ] && R=1
  EVAL_LOG=$log RACE=$R python3 scripts/keep_seeded.py $id /tmp/wt/$wt/out/$k $prop $pkg $det $needs > /dev/null
  echo "$id $wt-$k $prop detected_by=$det"
done
