#!/bin/bash
# eval_benign.sh <dir with patch.diff> [checks]  -- a behaviour-preserving change: every check must stay silent (exit 0)
set -u
M=$1; CHECKS=${2:-C03,C08,C09,C14,C18,C19,C20}
export GOFLAGS=-mod=mod GOPROXY=off GOSUMDB=off GOTOOLCHAIN=local
D=$(mktemp -d /tmp/evalben.XXXXXX)
trap 'rm -rf $D' EXIT
git -C /repo archive HEAD | tar -x -C $D
cd $D && git init -q . && git add -A >/dev/null && git -c user.email=x@x -c user.name=x commit -qm base
git -C $D apply $M/patch.diff || { echo "PATCH DOES NOT APPLY"; exit 3; }
(cd $D && go build ./... && go build -tags purego ./... && go build -tags verif ./...) || { echo "DOES NOT BUILD"; exit 3; }
echo "== pinned suite with patch"
(cd $D && go test -vet=off -count=1 ./... 2>&1 | grep -v "no test files" | tail -8)
for c in ${CHECKS//,/ }; do
  echo "== check $c quick against patched copy"
  (cd ${VERIF_HOME:-/verif} && VERIF_REPO=$D ./check $c quick > $D/check.out 2>&1; echo "check-exit=$?" >> $D/check.out)
  grep -v "^\[verif\] built" $D/check.out | cut -c1-400 | head -40; tail -1 $D/check.out
done
