#!/usr/bin/env python3
"""Replaces the seeded-changes table of DESIGN.md section 11.4 with the output of design_table.py."""
import subprocess, os, re
here=os.path.dirname(os.path.abspath(__file__))
tbl=subprocess.check_output(['python3',os.path.join(here,'design_table.py')],text=True).rstrip('\n')
p=os.path.join(here,'..','DESIGN.md')
s=open(p).read()
a=s.index('| id | written for | needs, to manifest |')
m=re.search(r'\n\n(?=Of the (?:first )?\d+)', s[a:])
b=a+m.start()
s=s[:a]+tbl+s[b:]
open(p,'w').write(s)
print('rows:',tbl.count('\n')-1)
