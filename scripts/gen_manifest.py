#!/usr/bin/env python3
"""Generates /verif/MANIFEST.json (kept as a script so the per-check texts stay in one place)."""
import json, sys

claimed = {
 "C09": dict(cat="fault_enumeration", ref="DESIGN.md section 4 (C09)",
   technique="deterministic simulation of the entropy seam: enumerated single-fault layer + seeded multi-fault signing histories, checked against RFC 6979 / sampler reference models and a no-reuse history oracle",
   text="Every single fault at the entropy seam (error position 0..33 x kind x delivery, every partition, stuck payloads, every candidate-class sequence of length <= 3, retry streams, RFC 6979 generator grid) is enumerated on every run; multi-fault histories (stuck/replayed entropy across keys and digests, failing-then-healthy devices) are sampled from VERIF_SEED. Oracles: exact 32-byte consumption, abort on error, chunking unobservable, no r/nonce shared by events with different (key, e, entropy) - also across long histories of up to 2048 signatures with stuck or shared entropy -, cumulative exact consumption on a shared device, nonce != entropy, sampler = first candidate in [1,n), RFC 6979 signatures and generator reads equal an independent model (the generator is read into fresh or reused buffers that the caller leaves alone, zeroes or overwrites). History faults: the caller overwrites the buffer it passed to NewPrivateKey and the latest event is signed again; two of (key, digest, entropy) are changed together by exactly their XOR difference; the entropy is changed by a multiple of n or p (two different strings, one residue); long histories sign an earlier digest again every few events, at back-distances 1..1025 around powers of two, and require the first answer; options name any of sixteen hashes (32-byte ones that are not SHA-256, shorter ones, ones not linked in) as crypto.Hash, inside *ECDSAOptions or inside a crypto.SignerOpts of a foreign type; the garbage collector runs (one or two complete collections, finalizers to completion) as a tape-decided step between operations; the reader's bytes are, in 1 of 12 devices, written by a helper goroutine while the signing goroutine's stack is moved; one device in six is presented to the library as a *bytes.Buffer, *bytes.Reader, *strings.Reader or *bufio.Reader (every end position 0..33 of each is in the enumerated layer); the entropy equals another input of the call (digest, key encoding, its negation); 16 histories (160 in the thorough tier) run in a GOARCH=386 build of library and harness, and the enumerated layer a second time plus some histories in a build made with go1.26.8 (code behind Go-version build constraints); a device may panic instead of returning (the caller recovers; the keys are judged by what follows). Stall world: one ECDSA signing call per run inside a testing/synctest bubble (fake clock, test binary built with go1.26.8) whose entropy reader - passed explicitly or behind crypto/rand.Reader - delivers 0..31 bytes in short reads and then blocks for 1 s .. 1000 h of simulated time before failing; the call must not come back with a signature while its reader is blocked or after it failed (a library that arms a timer and goes on without the entropy is caught in microseconds). Key objects come and go while the keys stay (an operation of the history: passers-by imported, used once and dropped; every key signs one (digest, entropy) pair; all key objects are dropped and collected and the keys imported again from their bytes in a tape-chosen rotation; the same pair signed again must give the same signatures); one signing call in six is made on a key object imported for that call alone (the caller holds no reference while the library works); one device in ten runs one or two complete garbage collections, finalizers included, inside its first Read, and one in ten signs with a bystander key inside its first Read (a reader that calls back into the library).",
   note="Trusted: Go's HMAC/SHA-256, math/big, the reference models (pinned to the bitcointalk RFC 6979 vectors, BIP-340 vectors and Wycheproof by a self-test). Bias: the structural clause (out-of-range candidates rejected, not reduced) is decided against the sampler model; in addition every long history extracts all nonces (the private key is known) and screens the 16 top and 16 bottom bits of min(k, n-k) at 8 standard deviations, which catches truncated, masked or fixed-bit nonces but cannot see subtle bias (in particular a bias confined to the top bit of k). Multi-fault histories are sampled, not enumerated. A signing call that FAILS WITH AN ERROR after more than three consecutive (0, nil) reads is counted, not reported (failing closed on a reader that makes no progress is not forbidden by the statement; signing without the entropy is). If go1.26.8 is not on PATH the stall world is skipped and the evidence says so (coverage.stall_world.state)."),
 "C08": dict(cat="exploration", ref="DESIGN.md section 4 (C08)",
   technique="deterministic simulation of the entropy seam; postconditions monitored as invariants on every successful signing event of every simulated history",
   text="Entropy-source clause only: on every successful Sign/SignRaw of every simulated history (healthy and faulted devices, RFC 6979 mode, rand == nil) the signature has r in [1,n), low s, verifies under d*G in the reference model and in the library in every encoding with both malleability settings, carries the unique recovery id that recovers the signer, parses back to the same (r,s,v), and is unchanged by SelfVerify; inadmissible digest lengths / encodings must give an error. Long signing histories (256..2048 consecutive SignRaw calls under RFC 6979 / a stuck device / one shared device) reach the rare r/s shapes (leading zero bytes, short DER integers); each such event is re-signed through Sign in all three encodings, parsed back and verified. Caller-owned *ECDSAOptions objects are reused and rewritten across calls, 16 inadmissible encodings (including values whose low bits look valid), crypto/rand.Reader passed explicitly, and every signature handed out earlier in a history is re-checked later (the bytes are the caller's). Options name any of sixteen hashes (too short to sign, 32-byte ones that are not SHA-256, ones not linked into the program) as crypto.Hash, inside *ECDSAOptions or inside a crypto.SignerOpts of a foreign type; long histories sign earlier digests again at cache-sized back-distances and require the same (r, s, v); garbage collections are a tape-decided step; a few histories run in a GOARCH=386 build (32-bit int/uint: coverage.platform_386) and in a build made with go1.26.8 (coverage.toolchain_go1_26); readers that panic. Key objects come and go while the keys stay (an operation of the history: passers-by imported, used once and dropped; every key signs one (digest, entropy) pair; all key objects are dropped and collected and the keys imported again from their bytes in a tape-chosen rotation; the same pair signed again must give the same signatures); one signing call in six is made on a key object imported for that call alone (the caller holds no reference while the library works); one device in ten runs one or two complete garbage collections, finalizers included, inside its first Read, and one in ten signs with a bystander key inside its first Read (a reader that calls back into the library).",
   note="Keys and digests are whatever the seeded workload draws (boundary-biased) - sampling, not enumeration over all d and digests. The x(R) >= n bit of the recovery id is unreachable for an honest signer (2^-128) and is not exercised."),
 "C14": dict(cat="exploration", ref="DESIGN.md section 4 (C14)",
   technique="deterministic simulation of the aux-randomness reader seam with fault injection; every signing event compared byte-for-byte with an independent BIP-340 model",
   text="Entropy-source clause: every successful Schnorr Sign under every simulated aux-randomness device equals the BIP-340 reference signature on the 32 bytes actually delivered, verifies in model and library, consumes exactly 32 bytes, aborts on a read error before byte 32, never fails on a healthy device; Schnorr keys derived from ECDSA keys expose the even-y point, its x and the raw scalar. Key-derivation clause: in pool-world call histories every Schnorr key built from a byte string, an ECDSA key object or a pool point (after arbitrary arithmetic histories and re-randomised projective representatives, odd and even y) must expose the model's even-y point, its x coordinate and - sampled - produce the BIP-340 reference signature; Sign is called with every kind of opts value (documented as ignored) and messages of 0..200 bytes, at SHA-256 block boundaries and around 1..8 KiB, the empty message as nil and as an empty slice, a strictly shorter message after a longer one with the same key; aux bytes written by a helper goroutine while the signer's stack moves, aux equal to the key encoding, its negation or the message, readers of standard-library types; garbage collections as a tape-decided step; readers that panic; a few histories in a GOARCH=386 build and in a build made with go1.26.8. Stall world (as for C09, Schnorr signer): an aux-randomness reader that blocks under a simulated clock must be waited for or failed with, never skipped. Key objects come and go while the keys stay (an operation of the history: passers-by imported, used once and dropped; every key signs one (digest, entropy) pair; all key objects are dropped and collected and the keys imported again from their bytes in a tape-chosen rotation; the same pair signed again must give the same signatures); one signing call in six is made on a key object imported for that call alone (the caller holds no reference while the library works); one device in ten runs one or two complete garbage collections, finalizers included, inside its first Read, and one in ten signs with a bystander key inside its first Read (a reader that calls back into the library). Half of the Schnorr signing keys are imported from a caller's buffer (the others derived from the ECDSA key object); the caller overwrites that buffer and what the key's accessors handed out later in the history, and the next BIP-340 signature must still be the model's.",
   note="Key parity x nonce parity x message length are sampled (probes count them), not enumerated."),
}

na = {
 "C01": "field arithmetic is a pure function of its operands: no schedule, fault, I/O or history for a simulator to own; deciding it is input enumeration or proof, a different technique",
 "C02": "scalar arithmetic mod n is a pure function of its operands; its aliasing clause is exercised by the C18 alias-equivalence oracle, exactness mod n is a pure-input claim",
 "C04": "s*P for all s and P is a pure function; the hard cases (extreme GLV halves, rounding carries) are constructed inputs that a schedule/fault search cannot steer to",
 "C05": "table exactness is a finite enumeration over a hook and pure-input multiplication; nothing for a scheduler or fault injector to decide",
 "C06": "accept/reject of a byte string is a pure function; only 'receiver unchanged on error' is history-dependent and that clause is decided under C18",
 "C07": "the ECDSA accept set is a pure predicate of (Q, digest, signature); boundary cases are constructed inputs",
 "C10": "ECDH and key import are pure functions; the one seam (GenerateKey reading crypto/rand.Reader) is exercised inside C09's sampler enumeration",
 "C11": "key recovery is a pure function of (digest, r, s, v)",
 "C12": "parsers/builders and the BIP-66 predicate are pure functions of byte strings; panic-freedom over all inputs is fuzzing, a different family",
 "C13": "the BIP-340 accept set is a pure predicate of (key, message, signature)",
 "C15": "hash-to-curve is explicitly a pure function of its inputs",
 "C16": "sum of s_i*P_i is a pure function; its aliasing clause is decided under C18",
 "C17": "secret-independence of control flow and memory indices is a side-channel property of single executions; schedules and faults do not bear on it",
}
pending = {}
if len(sys.argv) > 1:
    for p in sys.argv[1].split(","):
        if p: pending[p] = "check under construction in this session (claimed in DESIGN.md; will move to checks once its world is built)"

extra = json.load(open("/verif/scripts/manifest_extra.json")) if __import__("os").path.exists("/verif/scripts/manifest_extra.json") else {}
claimed.update(extra)
for p in list(pending):
    if p in claimed: del pending[p]

checks = []
for pid in sorted(claimed):
    c = claimed[pid]
    checks.append({
        "property_id": pid,
        "quick_cmd": f"./check {pid} quick",
        "thorough_cmd": f"./check {pid} thorough",
        "evidence_file": f"/verif/evidence/{pid}.json",
        "replay_cmd_template": "./check --replay {path}",
        "engine": "detsim",
        "level_claimed": {"category": c["cat"], "text": c["text"], "design_ref": c["ref"]},
        "level_note": c["note"],
        "technique": c["technique"],
    })
m = {
 "version": 1,
 "setup_cmd": "./setup.sh",
 "hooks": {
   "guard": "verif",
   "enable": "go build -tags verif (three add-only files: /repo/export_verif.go, /repo/export_verif_lookup.go, /repo/secec/export_verif.go); statement-level yield points for the concurrent world are NOT committed: they are generated from the current working tree at check time and injected with go build -overlay",
   "baseline_off_cmd": "cd /repo && GOFLAGS=-mod=mod GOPROXY=off GOSUMDB=off GOTOOLCHAIN=local go test -vet=off -count=1 -timeout 25m ./...",
   "source_commits": ["ceef1ab", "3e75f88", "d11be6f"],
   "add_only": True,
 },
 "engines": [{"name": "detsim", "path": "/verif/sim", "serves_properties": sorted(claimed), "kind_free_text": "deterministic simulation with fault injection: labelled multi-stream choice tape from VERIF_SEED, fault-injecting io.Reader devices, serialising scheduler with statement-level yield points (go/ast overlay) kept invisible to the race detector, math/big reference models, delta-debugging minimiser, fresh-process replay"}],
 "checks": checks,
 "notes": "All checks rebuild from /repo's working tree (override with VERIF_REPO for scratch copies). Exit 0 = held, 1 = VIOLATION line, 2 = harness trouble (never a violation). See DESIGN.md.",
 "not_applicable": [{"property_id": k, "reason": v} for k, v in sorted({**na, **pending}.items()) if k not in claimed],
}
json.dump(m, open("/verif/MANIFEST.json", "w"), indent=1)
print("claimed:", sorted(claimed), "n/a:", [x["property_id"] for x in m["not_applicable"]])
