#!/bin/bash
# eval_wave.sh <wt> <k> <pkg> <checks> [race]   -> /tmp/eval/<wt>-<k>.log  (agents' outputs under /tmp/wtout/<wt>/<k>)
cd "$(dirname "$0")/.."
mkdir -p /tmp/eval
VERIF_BUDGET_S=${VERIF_BUDGET_S:-30} scripts/eval_mutant.sh /tmp/wtout/$1/$2 $3 $4 ${TIER:-quick} ${5:-} > /tmp/eval/$1-$2.log 2>&1
grep -E "demo-clean-exit|DOES NOT|^(ok|FAIL|---)|check-exit|VIOLATION|class=" /tmp/eval/$1-$2.log | sort | uniq -c | sort -rn | head -30
