#!/bin/bash
# eval_mutant.sh <mutant-dir> <demo-pkg-dir-relative> <check-id>[,<check-id>...] [tier] [race]
#   mutant-dir: contains patch.diff and a demo *_test.go
# Confirms on a scratch copy of /repo (never /repo itself):
#   1. patch applies and builds; 2. pinned suite passes with it; 3. demo fails with it;
#   4. demo passes without it; 5. runs the given checks against the patched copy.
set -u
M=$1; PKG=$2; CHECKS=$3; TIER=${4:-quick}; RACE=${5:-}
export GOFLAGS=-mod=mod GOPROXY=off GOSUMDB=off GOTOOLCHAIN=local
D=$(mktemp -d /tmp/evalmut.XXXXXX)
trap 'rm -rf $D' EXIT
git -C /repo archive HEAD | tar -x -C $D
cd $D && git init -q . && git add -A >/dev/null && git -c user.email=x@x -c user.name=x commit -qm base
DEMO=$(ls $M/*_test.go | head -1)
RFLAG=""; [ -n "$RACE" ] && [ "$RACE" != "-" ] && RFLAG="-race"
[ -n "${DEMO_TAGS:-}" ] && RFLAG="$RFLAG -tags $DEMO_TAGS"
echo "== clean tree: demo must pass"
cp $DEMO $D/$PKG/demo_mutant_test.go
(cd $D/$PKG && env ${DEMO_ENV:-} go test $RFLAG -vet=off -count=1 -run 'Demo|Mutant' . 2>&1 | tail -3); echo "demo-clean-exit=${PIPESTATUS[0]}"
rm -f $D/$PKG/demo_mutant_test.go
echo "== apply patch"
git -C $D apply $M/patch.diff || { echo "PATCH DOES NOT APPLY"; exit 3; }
(cd $D && go build ./... && go build -tags purego ./...) || { echo "MUTANT DOES NOT BUILD"; exit 3; }
echo "== pinned suite with patch"
(cd $D && go test -vet=off -count=1 ./... 2>&1 | grep -v "no test files" | tail -8)
echo "== demo with patch: must fail"
cp $DEMO $D/$PKG/demo_mutant_test.go
(cd $D/$PKG && env ${DEMO_ENV:-} go test $RFLAG -vet=off -count=1 -run 'Demo|Mutant' . 2>&1 | tail -6); 
rm -f $D/$PKG/demo_mutant_test.go
for c in ${CHECKS//,/ }; do
  echo "== check $c $TIER against patched copy"
  (cd ${VERIF_HOME:-/verif} && VERIF_REPO=$D ./check $c $TIER > $D/check.out 2>&1; echo "check-exit=$?" >> $D/check.out)
  grep -v "^\[verif\] built" $D/check.out | cut -c1-300 | head -30; tail -1 $D/check.out
done
