#!/bin/bash
# run_all.sh <quick|thorough> : every claimed check against /repo, sequentially
cd "$(dirname "$0")/.."
tier=${1:-quick}
mkdir -p .work
rc=0
for p in C03 C08 C09 C14 C18 C19 C20; do
  t0=$(date +%s)
  ./check $p $tier > .work/runall-$p.out 2> .work/runall-$p.err
  e=$?
  echo "$p $tier exit=$e $(( $(date +%s) - t0 ))s : $(tail -1 .work/runall-$p.err)"
  grep -h "VIOLATION\|KNOWN-FINDING\|HARNESS-ERROR" .work/runall-$p.out .work/runall-$p.err
  [ $e -ne 0 ] && rc=1
done
python3-vt scripts/validate.py "$(pwd)"
exit $rc
