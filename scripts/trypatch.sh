#!/bin/bash
# trypatch.sh <patch.diff> <check-id>[,<check-id>...] [tier]  -- apply a patch to a scratch copy of /repo HEAD and run checks from this tree
set -u
P=$1; CHECKS=$2; TIER=${3:-quick}
D=$(mktemp -d /tmp/tp.XXXXXX)
trap 'rm -rf $D' EXIT
git -C /repo archive HEAD | tar -x -C $D
(cd $D && git init -q . && git apply "$P") || { echo "PATCH DOES NOT APPLY"; exit 3; }
(cd $D && GOFLAGS=-mod=mod GOPROXY=off GOSUMDB=off GOTOOLCHAIN=local go build ./... ) || { echo "MUTANT DOES NOT BUILD"; exit 3; }
cd "$(dirname "$0")/.."
for c in ${CHECKS//,/ }; do
  VERIF_REPO=$D ./check $c $TIER 2>&1 | grep -v "^\[verif\] built" | cut -c1-400 | tail -${TAILN:-12}
  echo "check=$c exit=${PIPESTATUS[0]}"
done
