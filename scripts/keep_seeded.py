#!/usr/bin/env python3
"""keep_seeded.py <id> <src-dir> <property> <demo-pkg> <detected-by (comma list or 'none')> <needs...>
Copies patch.diff, demo_test.go, notes.md from <src-dir> to /verif/seeded/<id>/ and writes meta.json.
The eval log /tmp/eval/<wt>-<k>.log (if given via EVAL_LOG) is summarised into meta.json."""
import json, os, re, shutil, sys
sid, src, prop, pkg, det = sys.argv[1:6]
needs = " ".join(sys.argv[6:])
dst = os.path.join(os.path.dirname(os.path.abspath(__file__)), "..", "seeded", sid)
os.makedirs(dst, exist_ok=True)
for f in ("patch.diff", "demo_test.go", "notes.md"):
    p = os.path.join(src, f)
    if os.path.exists(p):
        shutil.copy(p, os.path.join(dst, f))
log = os.environ.get("EVAL_LOG", "")
summary = {}
if log and os.path.exists(log):
    t = open(log, errors="replace").read()
    summary["demo_passes_on_clean_tree"] = "demo-clean-exit=0" in t
    summary["patch_applies_and_builds_asm_and_purego"] = "PATCH DOES NOT APPLY" not in t and "MUTANT DOES NOT BUILD" not in t
    m = re.search(r"== pinned suite with patch\n(.*?)== demo with patch", t, re.S)
    if m:
        lines = [l for l in m.group(1).splitlines() if l.strip()]
        summary["pinned_suite_with_patch"] = "pass" if lines and all(l.startswith("ok") for l in lines) else "FAIL"
    m = re.search(r"== demo with patch: must fail\n(.*?)(== check|\Z)", t, re.S)
    if m:
        summary["demo_fails_with_patch"] = "FAIL" in m.group(1)
    checks = {}
    for m in re.finditer(r"== check (\S+) (\S+) against patched copy\n(.*?)(?=== check|\Z)", t, re.S):
        body = m.group(3)
        ex = re.findall(r"check-exit=(\d+)", body)
        cls = re.findall(r"class=(\S+) key=(.*?) world", body)
        checks[m.group(1)] = {"tier": m.group(2), "exit": int(ex[-1]) if ex else None, "violation_classes": sorted({c + " [" + k + "]" for c, k in cls})[:6]}
    summary["checks"] = checks
meta = {
    "id": sid,
    "property": prop,
    "breaks": open(os.path.join(src, "notes.md"), errors="replace").read().strip().splitlines()[0][:300] if os.path.exists(os.path.join(src, "notes.md")) else "",
    "needs_to_manifest": needs,
    "demo": {"file": "demo_test.go", "copy_into": pkg, "run": "go test -vet=off -count=1 -run TestDemo ./%s" % pkg + (" (with -race)" if os.environ.get("RACE") else "")},
    "detected_by": [] if det == "none" else det.split(","),
    "what_was_run": "scripts/eval_mutant.sh on a scratch copy of /repo HEAD (git archive; never /repo itself): demo on the clean tree (must pass), git apply patch.diff, go build ./... and go build -tags purego ./..., the pinned suite go test -vet=off -count=1 ./... (must pass), the demo with the patch (must fail), then ./check <id> quick with VERIF_REPO pointing at the patched copy",
    "results": summary,
    "origin": "written by an independent sub-agent that was given only the property text and its own scratch worktree",
}
if sid in ("S128", "S129", "S130", "S150"):
    meta["demo"]["run"] = meta["demo"]["run"].replace("go test ", "go test -tags purego ")
if "/own/" in src:
    meta["origin"] = "written in this session as a sensitivity test of a new world or fault kind (see notes.md)"
    if sid == "S156":
        meta["demo"]["run"] = "GOTOOLCHAIN=go1.26.8 " + meta["demo"]["run"] + " (testing/synctest)"
if sid == "S151":
    meta["demo"]["run"] = "GOAMD64=v3 " + meta["demo"]["run"] + " (needs a CPU with AVX2)"
jp = os.path.join(os.path.dirname(os.path.abspath(__file__)), "seeded_judgements.json")
if os.path.exists(jp):
    jj = json.load(open(jp))
    if sid in jj:
        meta["judgement"] = jj[sid]
json.dump(meta, open(os.path.join(dst, "meta.json"), "w"), indent=1)
print("kept", sid, summary.get("checks"))
