#!/bin/bash
# replaytest.sh <patch.diff> <check-id> : apply patch to a scratch copy, run the check (expects VIOLATION),
# then replay the reported file against the patched copy (must reproduce: exit 1) and against /repo (must not: exit 0).
set -u
P=$1; C=$2
D=$(mktemp -d /tmp/rt.XXXXXX)
trap 'rm -rf $D' EXIT
git -C /repo archive HEAD | tar -x -C $D
(cd $D && git init -q . && git apply "$P") || { echo "PATCH DOES NOT APPLY"; exit 3; }
cd "$(dirname "$0")/.."
export VERIF_BUDGET_S=${VERIF_BUDGET_S:-20}
VERIF_REPO=$D ./check $C ${TIER:-quick} > $D/out.txt 2>&1; echo "check exit=$?"
R=$(grep -m1 "^VIOLATION" $D/out.txt | sed 's/.*replay=//')
echo "replay file: $R"
[ -z "$R" ] && { tail -5 $D/out.txt; exit 1; }
python3 -c "
import json,sys
r=json.load(open('$R'))
print('minimised:',r.get('minimised'),'note:',r.get('note'))
print('tape choices:',sum(len(v) for v in r['tape'].values()),'trace lines:',len(r.get('trace') or []))
"
VERIF_REPO=$D ./check --replay $R > $D/r1.txt 2>&1; echo "replay on patched copy exit=$? (want 1)"; grep -m2 -A1 "^VIOLATION" $D/r1.txt | cut -c1-200
./check --replay $R > $D/r2.txt 2>&1; echo "replay on /repo exit=$? (want 0)"; tail -1 $D/r2.txt | cut -c1-200
