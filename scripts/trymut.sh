#!/bin/bash
# trymut.sh <file-relative-to-repo> <old> <new> <check-id> [tier]  -- apply a textual mutation to a scratch copy and run a check
set -u
D=$(mktemp -d /tmp/mut.XXXXXX)
cp -r /repo/. $D/
python3 - "$D/$1" "$2" "$3" <<'PY'
import sys
p,old,new=sys.argv[1:4]
s=open(p).read()
assert s.count(old)>=1, "pattern not found"
s=s.replace(old,new,1)
open(p,'w').write(s)
PY
[ $? -ne 0 ] && { rm -rf $D; exit 3; }
(cd $D && GOFLAGS=-mod=mod GOPROXY=off GOSUMDB=off GOTOOLCHAIN=local go build ./... ) || { echo "MUTANT DOES NOT BUILD"; rm -rf $D; exit 3; }
cd /verif && VERIF_REPO=$D ./check "$4" "${5:-quick}" 2>&1 | tail -12
echo "exit=${PIPESTATUS[0]}"
rm -rf $D
