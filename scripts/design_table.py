#!/usr/bin/env python3
"""Prints the markdown table of seeded changes for DESIGN.md from seeded/*/meta.json."""
import json, glob, os
rows=[]
for d in sorted(glob.glob(os.path.join(os.path.dirname(os.path.abspath(__file__)),'..','seeded','S*'))):
    m=json.load(open(os.path.join(d,'meta.json')))
    r=m.get('results',{})
    checks=r.get('checks',{})
    det=[c for c,v in checks.items() if v.get('exit')==1]
    cls=[]
    for c in det:
        for x in checks[c].get('violation_classes',[])[:2]:
            cls.append(c+': '+x.split(' [')[0])
    tho=[c for c,v in r.get('checks_thorough',{}).items() if v.get('exit')==1 and c not in det]
    ok = r.get('pinned_suite_with_patch')=='pass' and r.get('demo_fails_with_patch') and r.get('demo_passes_on_clean_tree')
    rows.append('| %s | %s | %s | %s | %s |' % (m['id'], m['property'], m['needs_to_manifest'].replace('|','/'), (', '.join(det) if det else ('**none**' if not tho else '')) + ((' ' if det else '') + '(thorough tier: ' + ', '.join(tho) + ')' if tho else ''), '; '.join(sorted(set(cls)))[:160]))
print('| id | written for | needs, to manifest | caught by (quick tier) | violation classes |')
print('|----|----|----|----|----|')
print('\n'.join(rows))
