#!/bin/bash
# fourth benign wave (B21..B26) from /tmp/wtout/w10z/<k> and /tmp/eval/w10z-<k>.log; records which checks were run
cd "$(dirname "$0")/.."
for k in 1 2 3 4 5 6; do
  id=B$((20+k)); d=benign/$id; mkdir -p $d
  cp /tmp/wtout/w10z/$k/patch.diff /tmp/wtout/w10z/$k/notes.md /tmp/wtout/w10z/$k/check_test.go $d/ 2>/dev/null
  [ -f /tmp/eval/w10z-$k.log ] && cp /tmp/eval/w10z-$k.log $d/eval.log
  python3 - "$id" "w10z-$k" "$d" <<'PY'
import json,re,sys
sid,tag,d=sys.argv[1:4]
t=open('/tmp/eval/%s.log'%tag,errors='replace').read()
checks={}
for m in re.finditer(r"== check (\S+) \S+ against patched copy\n(.*?)(?=== check|\Z)", t, re.S):
    ex=re.findall(r"check-exit=(\d+)", m.group(2))
    checks[m.group(1)]=int(ex[-1]) if ex else None
m=re.search(r"== pinned suite with patch\n(.*?)== check", t, re.S)
lines=[l for l in (m.group(1).splitlines() if m else []) if l.strip()]
first=open(d+'/notes.md',errors='replace').read().strip().splitlines()[0][:300]
json.dump({"id":sid,"what":first,"expected":"every check stays silent (exit 0): the properties still hold","pinned_suite_with_patch":"pass" if lines and all(l.startswith('ok') for l in lines) else "FAIL","check_exit_codes":checks,"all_silent":all(v==0 for v in checks.values()),"checks_run":sorted(checks),"origin":"written by an independent sub-agent asked for behaviour-preserving changes aimed at eight named temptations (hand-written read loops that fail closed, finalizers, sync.Pool scratch, invisible representation tricks, bounded caches, internal parallelism, lazily computed per-key values, equivalent formulas)","what_was_run":"scripts/eval_benign.sh on a scratch copy of /repo HEAD: git apply, three builds, pinned suite, then the quick checks whose worlds the change touches (listed in checks_run; time did not allow all seven for every change), with VERIF_REPO pointing at the patched copy"},open(d+'/meta.json','w'),indent=1)
print(sid,tag,checks)
PY
done
