#!/usr/bin/env python3-vt
import json, sys, glob, jsonschema
root = sys.argv[1] if len(sys.argv) > 1 else '/verif'
jsonschema.validate(json.load(open(root + '/MANIFEST.json')), json.load(open('/root/.vp/MANIFEST.schema.json')))
print("manifest valid")
sch = json.load(open('/root/.vp/EVIDENCE.schema.json'))
for f in sorted(glob.glob(root + '/evidence/*.json')):
    jsonschema.validate(json.load(open(f)), sch)
    print("evidence valid:", f)
