#!/bin/bash
# keep_wave.sh <id-pattern>: (re)generates /verif/seeded/<id>/ for the rows of scripts/seeded_table.txt whose id matches,
# from the agents' outputs under /tmp/wtout/<wt>/<k> and the eval logs /tmp/eval/<wt>-<k>.log (both must still exist).
cd "$(dirname "$0")/.."
grep -v '^#' scripts/seeded_table.txt | while read id wt k prop pkg checks race needs; do
  [[ "$id" =~ ^($1)$ ]] || continue
  src=/tmp/wtout/$wt/$k; log=/tmp/eval/$wt-$k.log
  [ -f $src/patch.diff ] && [ -f $log ] || { echo "$id: sources missing, left alone"; continue; }
  det=$(python3 - "$log" <<'PY'
import re,sys
t=open(sys.argv[1],errors='replace').read()
d=[]
for m in re.finditer(r"== check (\S+) \S+ against patched copy\n(.*?)(?=== check|\Z)", t, re.S):
    ex=re.findall(r"check-exit=(\d+)", m.group(2))
    if ex and ex[-1]=='1': d.append(m.group(1))
print(','.join(d) if d else 'none')
PY
)
  R=""; [ "$race" = "race" ] && R=1
  EVAL_LOG=$log RACE=$R python3 scripts/keep_seeded.py $id $src $prop $pkg $det $needs > /dev/null
  cp $log seeded/$id/eval.log
  echo "$id $wt-$k $prop detected_by=$det"
done
