#!/bin/bash
# copies the behaviour-preserving changes and their evaluation summaries to /verif/benign/
cd "$(dirname "$0")/.."
# B13 and B14 were written in this session (kept by hand); ben3 is B15..B20
i=0
for wt in ben1 ben2 ben3; do for k in 1 2 3 4 5 6; do
  i=$((i+1)); [ $i -eq 13 ] && i=15; id=$(printf "B%02d" $i); d=benign/$id; mkdir -p $d
  cp /tmp/wt/$wt/out/$k/patch.diff /tmp/wt/$wt/out/$k/notes.md $d/ 2>/dev/null
  python3 - "$id" "$wt-$k" "$d" <<'PY'
import json,re,sys
sid,tag,d=sys.argv[1:4]
t=open('/tmp/eval/%s.log'%tag,errors='replace').read()
checks={}
for m in re.finditer(r"== check (\S+) \S+ against patched copy\n(.*?)(?=== check|\Z)", t, re.S):
    ex=re.findall(r"check-exit=(\d+)", m.group(2))
    checks[m.group(1)]=int(ex[-1]) if ex else None
m=re.search(r"== pinned suite with patch\n(.*?)== check", t, re.S)
lines=[l for l in (m.group(1).splitlines() if m else []) if l.strip()]
first=open(d+'/notes.md',errors='replace').read().strip().splitlines()[0][:300]
json.dump({"id":sid,"what":first,"expected":"every check stays silent (exit 0): the properties still hold","pinned_suite_with_patch":"pass" if lines and all(l.startswith('ok') for l in lines) else "FAIL","check_exit_codes":checks,"all_silent":all(v==0 for v in checks.values()) and len(checks)==7,"origin":"written by an independent sub-agent asked for behaviour-preserving refactors that might tempt an over-strict checker","what_was_run":"scripts/eval_benign.sh on a scratch copy of /repo HEAD: git apply, three builds, pinned suite, then all seven quick checks with VERIF_REPO pointing at the patched copy"},open(d+'/meta.json','w'),indent=1)
print(sid,tag,checks)
PY
done; done
