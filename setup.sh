#!/bin/bash
# Run once after a fresh restore, offline: builds the driver, warms the Go
# build cache (plain and race-enabled standard library) and runs the
# reference-model self-test.
set -eu
cd "$(dirname "$0")"
export GOFLAGS=-mod=mod GOPROXY=off GOSUMDB=off GOTOOLCHAIN=local
mkdir -p bin .work evidence replays
go build -o bin/driver ./cmd/driver
go build -tags verif -o bin/simrun ./cmd/simrun
bin/simrun -selftest
# unit tests of the machinery itself (tape, devices, scheduler, shrinker, reference models)
go test -count=1 ./sim/kernel ./sim/driver ./sim/ref
# warm the race-enabled build cache (used by the C20 check)
go build -race -tags verif -o .work/simrun-race-warm ./cmd/simrun && rm -f .work/simrun-race-warm
# warm the GOAMD64=v3 build cache (third build configuration of the C19 check)
GOAMD64=v3 go build -tags verif -o .work/simrun-v3-warm ./cmd/simrun && rm -f .work/simrun-v3-warm
# warm the GOARCH=386 build cache (the library on a 32-bit platform: sign and pool worlds)
GOARCH=386 go build -tags verif -o .work/simrun-386-warm ./cmd/simrun && rm -f .work/simrun-386-warm
# warm the build cache of the newer toolchain (the stall world of C09/C14 runs in testing/synctest bubbles)
if command -v go1.26.8 >/dev/null; then
  go1.26.8 test -c -tags verif -o .work/simstall-warm.test ./sim/worlds/stall && rm -f .work/simstall-warm.test
fi
echo "setup ok"
