package driver

import (
	"encoding/hex"
	"fmt"
	"os"
	"path/filepath"
	"strings"
	"time"

	"verif/sim/kernel"
	"verif/sim/replay"
)

// CheckC19: the same seed must give the same recorded history in the
// assembly and the purego build (public-operation clause).
func CheckC19(e *Env) (int, error) {
	prop := "C19"
	binA, err := e.Build(simrunAsm)
	if err != nil {
		return 2, err
	}
	binP, err := e.Build(simrunPurego)
	if err != nil {
		return 2, err
	}
	if err := e.RefSelfTest(binA); err != nil {
		return 2, err
	}
	// a third configuration: assembly at GOAMD64=v3 takes the assembly side
	// of the comparison in every second round
	binV3, v3State := e.buildV3()
	// a fourth: the assembly build as the race detector's instrumentation
	// leaves it (-race is a build configuration that selects the assembly
	// too; struct layouts and build tags may differ there)
	binRB, rbErr := e.Build(simrunAsmRaceBuild)
	rbState := "ran"
	if rbErr != nil {
		Logf("the -race build of simrun failed: skipped\n%v", rbErr)
		binRB, rbState = "", "skipped: does not build with -race"
	}
	a := newAgg()
	budget := budgetSeconds(e.Tier, 40, 840)
	type key struct {
		world string
		idx   int
	}
	digA, digP := map[key]string{}, map[key]string{}
	jobFrom := map[key]int{}
	asmSide := map[key]string{} // which assembly configuration ran this index
	var lookup [128]byte
	pairs := 0
	var diverged []key
	var traced []*kernel.Result
	start := time.Now()
	poolPer, signPer, lookPer := 250, 12, 1500
	if e.Tier == "thorough" {
		poolPer, signPer, lookPer = 1000, 50, 6000
	}
	for round := 0; ; round++ {
		// at least one round per configuration of the assembly side
		if round >= 4 && time.Since(start) > budget {
			break
		}
		var jobs []*Job
		// the assembly side rotates through its configurations: the plain
		// build, GOAMD64=v3, the plain build with every optional CPU feature
		// reported absent (a tree may pick routines at run time)
		binA, asmVar := binA, "asm"
		var asmEnv []string
		poolN, signN, lookN := poolPer, signPer, lookPer
		switch {
		case binV3 != "" && round%4 == 1:
			binA, asmVar = binV3, simrunAsmV3.Name
		case round%4 == 2:
			asmVar, asmEnv = asmCPUOff, cpuOffEnv
		case binRB != "" && round%4 == 3:
			// several times slower: a fifth of the runs (the purego side runs
			// the same indices)
			binA, asmVar, asmEnv = binRB, simrunAsmRaceBuild.Name, raceBuildEnv
			poolN, signN, lookN = (poolPer+4)/5, (signPer+4)/5, (lookPer+4)/5
		}
		for k := 0; k < 8; k++ {
			pf := (round*8 + k) * poolPer
			sf := (round*8 + k) * signPer
			lf := (round*8 + k) * lookPer
			poolPer, signPer, lookPer := poolN, signN, lookN
			var extra []string
			if round == 0 && k == 0 {
				extra = []string{"-trace"}
			}
			jobs = append(jobs,
				&Job{Bin: binA, Variant: asmVar, World: "pool", Prop: prop, From: pf, N: poolPer, Extra: extra, Env: asmEnv},
				&Job{Bin: binP, Variant: "purego", World: "pool", Prop: prop, From: pf, N: poolPer},
				&Job{Bin: binA, Variant: asmVar, World: "sign", Prop: prop, From: sf, N: signPer, Env: asmEnv},
				&Job{Bin: binP, Variant: "purego", World: "sign", Prop: prop, From: sf, N: signPer},
				&Job{Bin: binA, Variant: asmVar, World: "lookup", Prop: prop, From: lf, N: lookPer, Env: asmEnv},
				&Job{Bin: binP, Variant: "purego", World: "lookup", Prop: prop, From: lf, N: lookPer})
		}
		e.RunJobs(jobs)
		for _, j := range jobs {
			if abandoned := j.ExitCode == 3 && len(j.Results) > 0; j.Err != nil || (j.ExitCode != 0 && !abandoned) || (len(j.Results) != j.N && !abandoned) {
				return 2, harnessErr("job %s %s from=%d: err=%v exit=%d results=%d/%d\n%s", j.World, j.Variant, j.From, j.Err, j.ExitCode, len(j.Results), j.N, j.Stderr)
			}
			for _, r := range j.Results {
				a.add(prop, r)
				k := key{r.World, r.Idx}
				jobFrom[k] = j.From
				if r.Variant != "purego" {
					digA[k] = r.Digest
					asmSide[k] = r.Variant
					if hs, ok := r.Cfg["lookup_cov"].(string); ok {
						if b, err := hex.DecodeString(hs); err == nil {
							for i := range b {
								lookup[i] |= b[i]
							}
						}
					}
					if len(r.Trace) > 0 && len(traced) < 3 {
						traced = append(traced, r)
					}
				} else {
					digP[k] = r.Digest
				}
			}
		}
		for k, d := range digA {
			if dp, ok := digP[k]; ok {
				if dp != d {
					diverged = append(diverged, k)
				}
			}
		}
		if len(diverged) > 0 || len(a.Harness) > 0 || len(a.Violating) > 0 {
			break
		}
	}
	for k := range digA {
		if _, ok := digP[k]; ok {
			pairs++
		}
	}
	if len(a.Harness) > 0 {
		return 2, harnessErr("harness failures: %v", a.Harness)
	}
	exit, nViol := 0, len(diverged)
	if len(diverged) > 0 {
		findings, err := loadFindings(e.VerifDir)
		if err != nil {
			return 2, harnessErr("known_findings.json: %v", err)
		}
		// smallest index first (map order is random)
		best := diverged[0]
		for _, k := range diverged {
			if k.world < best.world || (k.world == best.world && k.idx < best.idx) {
				best = k
			}
		}
		sideBin, sideVar := binA, "asm"
		switch asmSide[best] {
		case simrunAsmV3.Name:
			sideBin, sideVar = binV3, simrunAsmV3.Name
		case asmCPUOff:
			sideVar = asmCPUOff
		case simrunAsmRaceBuild.Name:
			sideBin, sideVar = binRB, simrunAsmRaceBuild.Name
		}
		path, v, err := e.reportDivergence(sideBin, sideVar, binP, best.world, best.idx, jobFrom[best], digA[best], digP[best])
		if err != nil {
			return 2, err
		}
		if f := matchFinding(findings, v); f != nil {
			fmt.Printf("KNOWN-FINDING: property=%s %s [%s/%s]\n", prop, f.What, f.Class, f.Key)
		} else {
			fmt.Printf("VIOLATION property=%s replay=%s\n  class=%s key=%s world=%s run=%d seed=%d\n  %s\n", prop, path, v.Class, v.Key, best.world, best.idx, e.Seed, v.Detail)
			exit = 1
		}
	}
	// in-run violations of C19 (lookup world: wrong entry, fault, bytes
	// beyond the coordinates written by the SSE2 routine, ...)
	out, err := e.conclude(prop, a, func(r *kernel.Result) (string, string) {
		if r.Variant == "purego" {
			return binP, "purego"
		}
		if r.Variant == simrunAsmV3.Name {
			return binV3, simrunAsmV3.Name
		}
		if r.Variant == asmCPUOff {
			return binA, asmCPUOff
		}
		if r.Variant == simrunAsmRaceBuild.Name {
			return binRB, simrunAsmRaceBuild.Name
		}
		return binA, "asm"
	}, budgetSeconds(e.Tier, 60, 300))
	if err != nil {
		return 2, err
	}
	if out.exit == 1 {
		exit = 1
	}
	nViol += out.violations
	cov := 0
	for _, b := range lookup {
		for i := 0; i < 8; i++ {
			if b&(1<<uint(i)) != 0 {
				cov++
			}
		}
	}
	nontrivial := 0
	for k := range digA {
		if _, ok := digP[k]; ok {
			nontrivial++
		}
	}
	cv := map[string]any{
		"evaluations":         pairs,
		"distinct_nontrivial": len(a.NonTrivial),
		"rule":                "case = one seeded history (pool world: <= 80 API calls over a mutable object pool; sign world: <= 64 signing operations under fault-injecting entropy devices; lookup world: <= 48 steps of raw constant-time table lookups / table refills / destination overwrites through a verif-tagged hook, with tables and destinations placed at 0 or 8 mod 16) executed in BOTH builds (amd64 assembly, purego) from the same tape; the SHA-256 over every step's inputs and outputs must be identical. evaluations = history pairs compared; distinct_nontrivial = distinct history digests in which at least one injected fault fired.",
		"bounds_depth":        fmt.Sprintf("%d (the stated bounds on history length / callers / operations are those of depth 1, the quick tier; the thorough tier runs at depth 2: twice the history length, up to 8 callers x 8 operations)", e.Depth),
		"samples": e.samplesOrFetch(traced, 2, func() *Job {
			return &Job{Bin: binA, Variant: "asm", World: "pool", Prop: prop, From: 0, N: 4, Extra: []string{"-trace"}}
		}),
		"history_pairs_compared":              pairs,
		"cpu_features_off_configuration":      "in every fourth round the assembly side runs with GODEBUG=cpu.all=off (a tree may pick AVX2/BMI2/... routines at run time; their fallbacks are the assembly build too)",
		"race_build_configuration":            rbState + ": in every fourth round the assembly side is the binary built with -race (a build configuration that selects the assembly as well; build tags and struct layouts may differ there); a fifth of the runs, the race detector's own reports are not this check's business",
		"goamd64_v3_configuration":            v3State + ": in every fourth round the assembly side of the comparison is built with GOAMD64=v3 (a tree may select other assembly by microarchitecture level; 'without the purego tag' covers that build too)",
		"diverging_pairs":                     len(diverged),
		"operations_executed":                 a.Ops,
		"constant_time_lookup_windows_driven": cov,
		"constant_time_lookup_windows_total":  1024,
		"lookup_window_note":                  "(byte position 0..31) x (high/low nibble) x (index 0..15) of the scalars fed to ScalarBaseMult and MultiScalarMult in the pool world",
		"fault_kinds_fired":                   a.Faults,
		"reach_probes":                        a.Probes,
		"runs_by_variant":                     a.Variants,
		"runs_by_world":                       a.ByWorld,
		"simulated_time":                      fmt.Sprintf("%d logical steps", a.Steps),
		"runs_per_hour":                       int(float64(a.Runs) / time.Since(e.Start).Hours()),
		"real_vs_stub":                        "real: all of /repo in two build configurations (SSE2 assembly lookups vs portable lookups); in the lookup world the real lookup routines are called directly through a verif-tagged hook. stub: entropy devices; placement of tables/destinations in memory is decided by the tape. model: the two builds are each other's oracle, plus byte-exact selection of the table entry.",
	}
	ev := &Evidence{PropertyID: prop, Tier: e.Tier, Seed: int64(e.Seed), Level: "exploration", Coverage: cv, WallS: time.Since(e.Start).Seconds(), Violations: nViol,
		Assumptions: []string{
			"the lookup-level clause is sampled (table contents from six pattern families x 15 slots x 12/8 limb positions x 64 bit positions, 16 indices, 2x2 placements, dirty destinations), not enumerated",
			"index 0 of the affine lookup is only exercised with a zeroed destination (the contract every caller in the library honours): with a dirty destination the portable routine leaves it unchanged while the SSE2 routine stores zero, which no public operation can observe",
			"one seed is one exactly repeatable execution (validated by ./check --selftest), so any digest difference is caused by the build configuration",
		}}
	if err := writeEvidence(e.VerifDir, ev); err != nil {
		return 2, harnessErr("evidence: %v", err)
	}
	Logf("C19 %s: %d history pairs, %d diverging, lookup windows %d/1024, %.1fs", e.Tier, pairs, len(diverged), cov, time.Since(e.Start).Seconds())
	return exit, nil
}

// divergenceTrial replays a tape in both builds; ok iff the digests differ.
// asmCPUOff is the plain assembly build run with every optional CPU feature
// reported absent (GODEBUG=cpu.all=off is honoured by the runtime and by
// golang.org/x/sys/cpu): code that picks AVX2 / BMI2 / ... routines at run
// time takes its fallback.
const asmCPUOff = "asm-cpuoff"

var cpuOffEnv = []string{"GODEBUG=cpu.all=off"}

// simrunAsmRaceBuild is the assembly build with the race detector's
// instrumentation.  Reports of the detector do not decide anything here
// (single-task worlds; C20 owns them): exitcode=0.
var simrunAsmRaceBuild = Variant{Name: "asm-racebuild", Pkg: "./cmd/simrun", Tags: "verif", Race: true}
var raceBuildEnv = []string{"GORACE=exitcode=0"}

func (e *Env) divergenceTrial(binA, binP string, rf *replay.File, t Tape, tag string) (bool, *kernel.Result, *kernel.Result) {
	av := strings.TrimSuffix(rf.Variant, "+purego")
	ra, _, err := e.replayOnce(binA, av, rf, t, nil, tag+"a")
	if err != nil || ra == nil {
		return false, nil, nil
	}
	rp, _, err := e.replayOnce(binP, "purego", rf, t, nil, tag+"p")
	if err != nil || rp == nil {
		return false, nil, nil
	}
	return ra.Digest != rp.Digest, ra, rp
}

func firstDiff(a, b []string) (int, string, string) {
	for i := 0; i < len(a) || i < len(b); i++ {
		var x, y string
		if i < len(a) {
			x = a[i]
		}
		if i < len(b) {
			y = b[i]
		}
		if x != y {
			return i, x, y
		}
	}
	return -1, "", ""
}

func (e *Env) reportDivergence(binA, asmVar, binP, world string, idx, jobFrom int, batchDigA, batchDigP string) (string, kernel.Violation, error) {
	// record the tape (assembly build)
	j := &Job{Bin: binA, Variant: asmVar, World: world, Prop: "C19", From: idx, N: 1, Extra: []string{"-tape"}}
	if asmVar == asmCPUOff {
		j.Env = cpuOffEnv
	}
	if asmVar == simrunAsmRaceBuild.Name {
		j.Env = raceBuildEnv
	}
	e.runJob(j)
	if j.Err != nil || len(j.Results) != 1 {
		return "", kernel.Violation{}, harnessErr("could not record tape of %s#%d: %v", world, idx, j.Err)
	}
	rec := j.Results[0]
	rf := &replay.File{Depth: e.Depth, Procs: 1, Property: "C19", World: world, Prop: "C19", Variant: asmVar + "+purego", VerifSeed: e.Seed, Idx: idx, Tape: rec.Tape}
	ctr := 0
	lock := make(chan struct{}, 1)
	lock <- struct{}{}
	trial := func(t Tape) (bool, Tape) {
		<-lock
		ctr++
		tag := fmt.Sprintf("d%d", ctr)
		lock <- struct{}{}
		ok, ra, _ := e.divergenceTrial(binA, binP, rf, t, tag)
		if !ok {
			return false, nil
		}
		return true, ra.Tape
	}
	// The divergence must reproduce from the tape: alone in fresh processes,
	// or - when it depends on what the processes did before (a pool or cache
	// that one build has and the other has not) - after the runs that
	// preceded it in its job, with the job's number of Ps.
	var ok bool
	var canon Tape
	type attempt struct{ prefix, procs int }
	attempts := []attempt{{0, 1}}
	if idx > jobFrom || ProcsFor(jobFrom) != 1 {
		attempts = append(attempts, attempt{idx - jobFrom, ProcsFor(jobFrom)})
	}
search:
	for _, at := range attempts {
		rf.Prefix, rf.Procs = at.prefix, at.procs
		for try := 0; try < 3; try++ {
			if ok, canon = trial(rf.Tape); ok {
				break search
			}
		}
	}
	if !ok {
		// observed in the batch, not reproducible from the tape: the
		// determinism self-test shows that on the unchanged tree a run is a
		// pure function of its tape in both builds, so one build depends on
		// something outside it (sync.Pool / garbage-collector timing)
		f := false
		rf.Prefix, rf.Procs, rf.Reproduced = 0, 1, &f
		v := kernel.Violation{Property: "C19", Class: "build-divergence", Key: world,
			Detail: fmt.Sprintf("run %s#%d (job from %d) gave history digest %s in the assembly build ("+asmVar+") and %s in the purego build; the difference was not reproduced in %d fresh-process replays of the tape (alone and after the job's earlier runs), so one build depends on state outside the tape", world, idx, jobFrom, batchDigA, batchDigP, 3*len(attempts))}
		rf.Violation = v
		rf.Note = "observed, not reproduced"
		dir := filepath.Join(e.VerifDir, "replays")
		_ = os.MkdirAll(dir, 0o755)
		path := filepath.Join(dir, fmt.Sprintf("C19-seed%d-%s-%d-builds.json", e.Seed, world, idx))
		if err := rf.Save(path); err != nil {
			return "", v, harnessErr("write replay: %v", err)
		}
		Logf("the asm/purego divergence of %s#%d did not reproduce from its tape; reported as observed", world, idx)
		return path, v, nil
	}
	if rf.Prefix > 0 {
		Logf("the divergence of %s#%d reproduces only after the %d runs that preceded it in its process", world, idx, rf.Prefix)
	}
	small, trials, acc := Shrink(canon, trial, budgetSeconds(e.Tier, 60, 300), e.Workers)
	Logf("minimised divergence: %d trials, %d accepted", trials, acc)
	_, ra, rp := e.divergenceTrial(binA, binP, rf, small, "final")
	v := kernel.Violation{Property: "C19", Class: "build-divergence", Key: world}
	if ra != nil && rp != nil {
		i, x, y := firstDiff(ra.Trace, rp.Trace)
		v.Step = i
		v.Detail = fmt.Sprintf("the same tape gives different histories in the two builds; first differing record (#%d):\n  %s: %s\n  purego: %s", i, asmVar, x, y)
		// key on the operation name of the differing record
		rf.Trace = append([]string{"--- assembly build (" + asmVar + ") ---"}, ra.Trace...)
		rf.Trace = append(rf.Trace, "--- purego build ---")
		rf.Trace = append(rf.Trace, rp.Trace...)
		rf.Tape = small
		rf.Minimised = true
	}
	rf.Violation = v
	dir := filepath.Join(e.VerifDir, "replays")
	_ = os.MkdirAll(dir, 0o755)
	path := filepath.Join(dir, fmt.Sprintf("C19-seed%d-%s-%d-builds.json", e.Seed, world, idx))
	if err := rf.Save(path); err != nil {
		return "", v, harnessErr("write replay: %v", err)
	}
	return path, v, nil
}
