package driver

import (
	"strings"
	"sync"
	"time"

	"verif/sim/kernel"
)

// Tape is a recorded choice tape.
type Tape = map[string][]kernel.Choice

// TrialFunc re-executes a candidate tape in a fresh process and reports
// whether the same violation (property + class) is reproduced; on success it
// returns the canonical re-recording of the tape.
type TrialFunc func(t Tape) (ok bool, canon Tape)

func cloneTape(t Tape) Tape {
	out := make(Tape, len(t))
	for k, v := range t {
		out[k] = append([]kernel.Choice(nil), v...)
	}
	return out
}

func tapeSize(t Tape) (n int, sum uint64) {
	for _, v := range t {
		n += len(v)
		for _, c := range v {
			if c.V != 0 {
				sum++
			}
		}
	}
	return
}

type edit struct {
	desc  string
	apply func(t Tape) Tape
}

func isBlockStart(label string) bool {
	return label == "more" || strings.HasSuffix(label, ".more")
}

// candidateEdits lists simplifications of t, most aggressive first.
func candidateEdits(t Tape) []edit {
	var eds []edit
	names := kernel.StreamNames(t)
	// 0. fewer parties first: tasks, keys, points, scalars
	for _, name := range names {
		name := name
		for i, c := range t[name] {
			switch c.Label {
			case "ntasks", "ncrowd", "nkeys", "npoints", "nscalars", "nfocus":
			default:
				continue
			}
			if c.V == 0 {
				continue
			}
			i := i
			eds = append(eds, edit{"zero " + name + ":" + c.Label, func(t Tape) Tape { t[name][i].V = 0; return t }})
			if c.V > 1 {
				eds = append(eds, edit{"dec " + name + ":" + c.Label, func(t Tape) Tape { t[name][i].V--; return t }})
			}
		}
	}
	// 1. drop whole streams (replay yields zeros for a missing stream)
	for _, name := range names {
		name := name
		nz := false
		for _, c := range t[name] {
			if c.V != 0 {
				nz = true
			}
		}
		if nz {
			eds = append(eds, edit{"drop-stream " + name, func(t Tape) Tape { delete(t, name); return t }})
		}
	}
	// 2. delete op blocks (from a "more" to the next "more"), last first
	for _, name := range names {
		name := name
		s := t[name]
		var starts []int
		for i, c := range s {
			if isBlockStart(c.Label) {
				starts = append(starts, i)
			}
		}
		for bi := len(starts) - 1; bi >= 0; bi-- {
			a := starts[bi]
			b := len(s)
			if bi+1 < len(starts) {
				b = starts[bi+1]
			}
			if s[a].V == 0 {
				continue // the terminating "no more" marker
			}
			eds = append(eds, edit{"del-block " + name, func(t Tape) Tape {
				s := t[name]
				if b > len(s) {
					return t
				}
				t[name] = append(append([]kernel.Choice(nil), s[:a]...), s[b:]...)
				return t
			}})
		}
	}
	// 3. truncate streams / delete spans (halves, quarters, ...)
	for _, name := range names {
		name := name
		n := len(t[name])
		for span := n / 2; span >= 1; span /= 2 {
			for a := n - span; a >= 0; a -= span {
				a, span := a, span
				eds = append(eds, edit{"del-span " + name, func(t Tape) Tape {
					s := t[name]
					if a+span > len(s) {
						return t
					}
					t[name] = append(append([]kernel.Choice(nil), s[:a]...), s[a+span:]...)
					return t
				}})
				if len(eds) > 4000 {
					break
				}
			}
			if span <= 4 && n > 200 {
				break
			}
		}
	}
	// 4. zero spans, then single values; then halve
	for _, name := range names {
		name := name
		s := t[name]
		n := len(s)
		for span := n / 2; span >= 2; span /= 2 {
			for a := 0; a+span <= n; a += span {
				nz := false
				for _, c := range s[a : a+span] {
					if c.V != 0 && !isBlockStart(c.Label) {
						nz = true
					}
				}
				if !nz {
					continue
				}
				a, span := a, span
				eds = append(eds, edit{"zero-span " + name, func(t Tape) Tape {
					s := t[name]
					for i := a; i < a+span && i < len(s); i++ {
						if !isBlockStart(s[i].Label) {
							s[i].V = 0
						}
					}
					return t
				}})
			}
			if n > 400 && span <= 16 {
				break
			}
		}
		if n <= 600 {
			for i, c := range s {
				if c.V == 0 || isBlockStart(c.Label) {
					continue
				}
				i := i
				eds = append(eds, edit{"zero " + name + ":" + c.Label, func(t Tape) Tape { t[name][i].V = 0; return t }})
				if c.V > 1 {
					eds = append(eds, edit{"halve " + name + ":" + c.Label, func(t Tape) Tape { t[name][i].V /= 2; return t }})
					eds = append(eds, edit{"dec " + name + ":" + c.Label, func(t Tape) Tape { t[name][i].V--; return t }})
				}
			}
		}
	}
	return eds
}

// Shrink minimises a failing tape by delta debugging with parallel trials.
func Shrink(start Tape, trial TrialFunc, budget time.Duration, workers int) (Tape, int, int) {
	cur := cloneTape(start)
	deadline := time.Now().Add(budget)
	tried := map[string]bool{}
	trials, accepted := 0, 0
	for time.Now().Before(deadline) {
		eds := candidateEdits(cur)
		progress := false
		for off := 0; off < len(eds) && time.Now().Before(deadline); {
			// next window of untried candidates
			type cand struct {
				t    Tape
				ok   bool
				can  Tape
				desc string
			}
			var win []*cand
			for off < len(eds) && len(win) < workers {
				c := eds[off].apply(cloneTape(cur))
				d := kernel.TapeDigest(c)
				desc := eds[off].desc
				off++
				if tried[d] || d == kernel.TapeDigest(cur) {
					continue
				}
				tried[d] = true
				win = append(win, &cand{t: c, desc: desc})
			}
			if len(win) == 0 {
				continue
			}
			var wg sync.WaitGroup
			for _, c := range win {
				wg.Add(1)
				go func(c *cand) {
					defer wg.Done()
					c.ok, c.can = trial(c.t)
				}(c)
			}
			wg.Wait()
			trials += len(win)
			for _, c := range win {
				if !c.ok {
					continue
				}
				n0, z0 := tapeSize(cur)
				n1, z1 := tapeSize(c.can)
				if n1 < n0 || (n1 == n0 && z1 < z0) || kernel.TapeDigest(c.can) != kernel.TapeDigest(cur) && n1 <= n0 && z1 <= z0 {
					cur = c.can
					accepted++
					progress = true
					break
				}
			}
			if progress {
				break // regenerate the edit list from the new tape
			}
		}
		if !progress {
			break
		}
	}
	return cur, trials, accepted
}
