package driver

// SelfTest validates the simulator itself (determinism); see selftest_impl.
func SelfTest(verifDir, what string, seed uint64) (int, error) {
	return 2, harnessErr("not implemented yet")
}
