package driver

import (
	"crypto/sha256"
	"encoding/json"
	"fmt"
	"sort"

	"verif/sim/kernel"
)

// SelfTest validates the simulator itself: determinism of every world.
// For each world, `n` run indices are executed 3 times under each of
// GOMAXPROCS 1, 4, 16 in separate processes (and, for the conc world, in the
// plain and the race build); the complete result records — history digest,
// schedule signature, recorded tape, readable trace, fault and probe
// counters — must be identical per run index.  A difference is a harness
// defect: exit 2, never a violation.
func SelfTest(verifDir, what string, seed uint64) (int, error) {
	e, err := NewEnv(verifDir, "quick", seed)
	if err != nil {
		return 2, err
	}
	defer e.Cleanup()
	n := 40
	type target struct {
		world, prop, variant string
		bin                  string
		extra                []string
		env                  []string
	}
	var targets []target
	if what == "all" || what == "sign" || what == "pool" {
		bin, err := e.Build(simrunAsm)
		if err != nil {
			return 2, err
		}
		binP, err := e.Build(simrunPurego)
		if err != nil {
			return 2, err
		}
		if what != "pool" {
			targets = append(targets, target{"sign", "C09", "asm", bin, nil, nil}, target{"sign", "C14", "purego", binP, nil, nil}, target{"signenum", "C09", "asm", bin, nil, nil})
			if sb, _ := e.buildStall(); sb != "" {
				targets = append(targets, target{"stall", "C09", simStall.Name, sb, nil, nil}, target{"stall", "C14", simStall.Name, sb, nil, nil}, target{"stall", "C18", simStall.Name, sb, nil, nil}, target{"stall", "C20", simStall.Name, sb, nil, nil})
			}
		}
		if what != "sign" {
			targets = append(targets, target{"pool", "C18", "asm", bin, nil, nil}, target{"pool", "C03", "purego", binP, nil, nil})
		}
	}
	if what == "all" || what == "conc" {
		overlay, sites, err := e.instrumentRepo()
		if err != nil {
			return 2, err
		}
		plain, err := e.Build(concVariant("asm", overlay))
		if err != nil {
			return 2, err
		}
		race, err := e.Build(concVariant("asm-race", overlay))
		if err != nil {
			return 2, err
		}
		ex := []string{"-sites", fmt.Sprint(sites)}
		targets = append(targets, target{"conc", "C20", "asm", plain, ex, nil}, target{"conc", "C20", "asm", race, ex, []string{"GORACE=halt_on_error=1 exitcode=66 history_size=7"}})
	}
	if len(targets) == 0 {
		return 2, harnessErr("selftest: unknown target %q (all|sign|pool|conc)", what)
	}
	bad := 0
	for _, tg := range targets {
		cnt := n
		if tg.world == "signenum" {
			cnt = 2
		}
		var jobs []*Job
		for _, procs := range []int{1, 4, 16} {
			for rep := 0; rep < 3; rep++ {
				j := &Job{Bin: tg.bin, Variant: tg.variant, World: tg.world, Prop: tg.prop, From: 0, N: cnt, Extra: append([]string{"-trace", "-tape"}, tg.extra...), Env: append([]string{fmt.Sprintf("GOMAXPROCS=%d", procs)}, tg.env...)}
				jobs = append(jobs, j)
			}
		}
		e.RunJobs(jobs)
		ref := map[int]string{}
		for ji, j := range jobs {
			if j.Err != nil || j.ExitCode != 0 || len(j.Results) != cnt {
				return 2, harnessErr("selftest job %s/%s: err=%v exit=%d results=%d/%d\n%s", tg.world, tg.variant, j.Err, j.ExitCode, len(j.Results), cnt, j.Stderr)
			}
			for _, r := range j.Results {
				fp := fingerprint(r)
				if ji == 0 {
					ref[r.Idx] = fp
				} else if ref[r.Idx] != fp {
					bad++
					Logf("NONDETERMINISM: world=%s variant=%s race=%v idx=%d differs between processes (job %d, env %v)", tg.world, tg.variant, len(tg.env) > 0, r.Idx, ji, j.Env)
				}
			}
		}
		Logf("selftest %s/%s race=%v: %d indices x 9 processes (GOMAXPROCS 1/4/16 x 3) compared", tg.world, tg.variant, len(tg.env) > 0, cnt)
	}
	// the conc world must give the same histories in the plain and the race build
	if bad > 0 {
		return 2, harnessErr("determinism self-test FAILED: %d differing records", bad)
	}
	fmt.Println("determinism self-test ok")
	return 0, nil
}

// fingerprint covers everything except wall time.
func fingerprint(r *kernel.Result) string {
	c := *r
	c.WallUS = 0
	b, _ := json.Marshal(&c)
	// maps are marshalled with sorted keys; tape stream order is sorted too
	_ = sort.Strings
	return fmt.Sprintf("%x", sha256.Sum256(b))
}
