package driver

import (
	"bytes"
	"encoding/hex"
	"encoding/json"
	"fmt"
	"os"
	"os/exec"
	"path/filepath"
	"regexp"
	"sort"
	"strings"
	"time"

	"verif/sim/kernel"
	"verif/sim/replay"
)

// instrumentRepo runs cmd/instrument on the current tree and returns the
// overlay path and the number of yield sites.
func (e *Env) instrumentRepo() (string, int, error) {
	overlay, sites, err := e.instrumentRepoWith(false)
	if err != nil {
		return "", 0, err
	}
	// The cooperative-lock rewriting assumes that x.Lock()/x.RLock() are
	// sync.Mutex / sync.RWMutex methods (so that x.TryLock exists).  If the
	// instrumented tree does not compile, fall back to yield points only:
	// locks then block in the runtime and the watchdog handles them.
	probe := concVariant("asm", overlay)
	probe.Name = "asm-probe"
	if _, berr := e.Build(probe); berr != nil {
		Logf("the tree does not compile with cooperative locks (%v); instrumenting without them", strings.SplitN(berr.Error(), "\n", 2)[0])
		return e.instrumentRepoWith(true)
	}
	return overlay, sites, nil
}

func (e *Env) instrumentRepoWith(noLocks bool) (string, int, error) {
	bin := filepath.Join(e.WorkDir, "bin", "instrument")
	cmd := exec.Command("go", "build", "-o", bin, "./cmd/instrument")
	cmd.Dir = e.VerifDir
	cmd.Env = goEnv()
	if out, err := cmd.CombinedOutput(); err != nil {
		return "", 0, harnessErr("build instrument: %v\n%s", err, out)
	}
	dir := filepath.Join(e.WorkDir, "ov")
	args := []string{"-repo", e.RepoDir, "-out", dir}
	if noLocks {
		dir = filepath.Join(e.WorkDir, "ov-nolocks")
		args = []string{"-repo", e.RepoDir, "-out", dir, "-nolocks"}
	}
	cmd = exec.Command(bin, args...)
	out, err := cmd.CombinedOutput()
	if err != nil {
		return "", 0, harnessErr("instrument %s: %v\n%s", e.RepoDir, err, out)
	}
	var sites []json.RawMessage
	b, err := os.ReadFile(filepath.Join(dir, "sites.json"))
	if err != nil {
		return "", 0, harnessErr("sites.json: %v", err)
	}
	if err := json.Unmarshal(b, &sites); err != nil {
		return "", 0, harnessErr("sites.json: %v", err)
	}
	Logf("%s", strings.TrimSpace(string(out)))
	return filepath.Join(dir, "overlay.json"), len(sites), nil
}

func concVariant(name, overlay string) Variant {
	v := Variant{Name: name, Pkg: "./cmd/simconc", Tags: "verif,verifoverlay", Overlay: overlay}
	if name == "386" {
		v.Env = []string{"GOARCH=386"}
	}
	if strings.HasPrefix(name, "purego") {
		v.Tags += ",purego"
	}
	if strings.HasSuffix(name, "-race") {
		v.Race = true
	}
	return v
}

var reRaceFunc = regexp.MustCompile(`(?m)^  (\S+)\(\)\s*$`)

// parseRace extracts the two access stacks of the first report and decides
// whether the library is involved.
func parseRace(report string) (key string, inLibrary bool, summary string) {
	i := strings.Index(report, "WARNING: DATA RACE")
	if i < 0 {
		return "", false, ""
	}
	rep := report[i:]
	if j := strings.Index(rep, "=================="); j > 0 {
		rep = rep[:j]
	}
	// sections: "<Access> at 0x.. by goroutine N:" then frames, "Previous <access> at ..." then frames, then "Goroutine N (running) created at:"
	// the first access follows the "WARNING: DATA RACE" line directly
	secs := strings.Split(strings.TrimPrefix(strings.TrimPrefix(rep, "WARNING: DATA RACE"), "\n"), "\n\n")
	var tops []string
	for _, sec := range secs {
		head := strings.TrimSpace(strings.SplitN(sec, "\n", 2)[0])
		if !(strings.Contains(head, " at 0x") && strings.Contains(head, "by ")) {
			continue
		}
		top := ""
		for _, m := range reRaceFunc.FindAllStringSubmatch(sec, -1) {
			fn := m[1]
			if strings.HasPrefix(fn, "runtime.") || strings.HasPrefix(fn, "sync.") || strings.HasPrefix(fn, "sync/atomic.") {
				continue
			}
			if strings.HasPrefix(fn, "verif/sim/worlds/conc.own") {
				// own() renders and then overwrites a value the library has
				// just handed to this caller: a race there means the library
				// gave the same memory to two callers
				inLibrary = true
				if top == "" {
					top = "memory handed out by the library (caller-side use of a returned slice)"
				}
				break
			}
			if strings.HasPrefix(fn, "verif/") {
				break
			}
			if top == "" {
				top = fn
			}
			if strings.Contains(fn, "gitlab.com/yawning/secp256k1-voi") {
				inLibrary = true
			}
		}
		if top == "" {
			top = "?"
		}
		tops = append(tops, top)
	}
	sort.Strings(tops)
	key = strings.Join(tops, " <-> ")
	lines := strings.Split(rep, "\n")
	if len(lines) > 40 {
		lines = lines[:40]
	}
	return key, inLibrary, strings.Join(lines, "\n")
}

func readRaceLogs(prefix string) string {
	files, _ := filepath.Glob(prefix + ".*")
	var sb strings.Builder
	for _, f := range files {
		b, _ := os.ReadFile(f)
		sb.Write(b)
		os.Remove(f)
	}
	return sb.String()
}

type concBins struct {
	plain map[string]string // variant -> binary
	race  map[string]string
	sites int
}

// runConcJob runs one simconc job; for race binaries it handles exit code 66.
func (e *Env) concJob(bin, variant string, from, n, sites int, race bool, id string, extra ...string) *Job {
	j := &Job{Bin: bin, Variant: variant, World: "conc", Prop: "C20", From: from, N: n, Extra: append([]string{"-sites", fmt.Sprint(sites)}, extra...), Timeout: 20 * time.Minute}
	// One P: the tasks are serialised anyway, and with a single P the
	// per-P caches of sync.Pool (which a changed library might use) behave
	// the same in every process, so such runs replay too.
	if race {
		j.RaceLog = filepath.Join(e.WorkDir, "race-"+id)
		j.Env = append(j.Env, "GORACE=halt_on_error=1 exitcode=66 history_size=7 log_path="+j.RaceLog)
	}
	return j
}

// recordTape re-runs one index in the plain binary to obtain its tape (the
// draws are a pure function of VERIF_SEED and the index, identical in the
// race build).
func (e *Env) recordTape(plainBin, variant string, idx, sites int) (*kernel.Result, error) {
	j := e.concJob(plainBin, variant, idx, 1, sites, false, "", "-tape", "-trace")
	e.runJob(j)
	if j.Err != nil || len(j.Results) != 1 {
		return nil, harnessErr("could not record the tape of conc run %d: %v\n%s", idx, j.Err, j.Stderr)
	}
	return j.Results[0], nil
}

// CheckConc decides C20 in world `conc`.
func CheckConc(e *Env) (int, error) {
	prop := "C20"
	overlay, sites, err := e.instrumentRepo()
	if err != nil {
		return 2, err
	}
	// both build configurations in both tiers (rounds alternate): code that
	// exists only under the purego constraint has its own shared state
	variants := []string{"asm", "purego"}
	bins := concBins{plain: map[string]string{}, race: map[string]string{}, sites: sites}
	for _, v := range variants {
		if bins.plain[v], err = e.Build(concVariant(v, overlay)); err != nil {
			return 2, err
		}
		if bins.race[v], err = e.Build(concVariant(v+"-race", overlay)); err != nil {
			return 2, err
		}
	}
	// the library on a 32-bit platform (no race detector there; the solo-run
	// oracle, panics and fatal errors remain): a few jobs per round
	bin386, state386 := "", "skipped: does not build for GOARCH=386"
	v386 := concVariant("386", overlay)
	if b, err := e.Build(v386); err == nil {
		if out, err := exec.Command(b, "-selftest").CombinedOutput(); err == nil {
			bin386, state386 = b, "ran"
			bins.plain["386"] = b
		} else {
			state386 = "skipped: this machine does not run GOARCH=386 binaries"
			Logf("GOARCH=386 simconc does not run here (%v: %s): skipped", err, strings.TrimSpace(string(out)))
		}
	} else {
		Logf("the GOARCH=386 build of simconc failed: skipped\n%v", err)
	}
	if err := e.RefSelfTest(bins.plain["asm"]); err != nil {
		return 2, err
	}
	if err := e.raceCanary(bins.race["asm"]); err != nil {
		return 2, err
	}

	a := newAgg()
	// a caller parked in its own entropy reader (simulated clock) must not
	// hold up other callers: the stall world's peer mode
	stallBin, stallState := e.buildStall()
	if stallBin != "" {
		n := 1600
		if e.Tier == "thorough" {
			n = 25600
		}
		sj := SplitRuns(stallBin, simStall.Name, "stall", prop, 0, n, n/16)
		e.RunJobs(sj)
		for _, j := range sj {
			if j.Err != nil || (j.ExitCode != 0 && !(j.ExitCode == 3 && len(j.Results) > 0)) {
				return 2, harnessErr("stall job from=%d: err=%v exit=%d\n%s", j.From, j.Err, j.ExitCode, j.Stderr)
			}
			for _, r := range j.Results {
				a.add(prop, r)
			}
		}
	}
	preemptSites := map[int]bool{}
	hitSites := make([]byte, (sites+8)/8+1)
	policies := map[string]int{}
	maxPairs := 0
	raceRuns, plainRuns := 0, 0
	var traced []*kernel.Result
	type raceHit struct {
		variant string
		idx     int
		report  string
		key     string
		from    int
	}
	var races []raceHit
	type fatalHit struct {
		variant string
		race    bool
		idx     int
		from    int
		stderr  string
		msg     string
	}
	var fatals []fatalHit

	budget := budgetSeconds(e.Tier, 50, 780)
	const racePer, plainPer = 24, 96
	nextRace, nextPlain, next386 := 0, 0, 0
	start := time.Now()
	for round := 0; ; round++ {
		if round >= len(variants) && time.Since(start) > budget {
			break
		}
		var jobs []*Job
		v := variants[round%len(variants)]
		for k := 0; k < 16; k++ {
			id := fmt.Sprintf("%d-%d", round, k)
			var extra []string
			if round == 0 && k == 0 {
				extra = []string{"-trace"}
			}
			jobs = append(jobs, e.concJob(bins.race[v], v+"-race", nextRace, racePer, sites, true, id, extra...))
			nextRace += racePer
		}
		// plain runs use a disjoint index range
		for k := 0; k < 16; k++ {
			jobs = append(jobs, e.concJob(bins.plain[v], v, 1_000_000+nextPlain, plainPer, sites, false, ""))
			nextPlain += plainPer
		}
		if bin386 != "" {
			for k := 0; k < 2; k++ {
				jobs = append(jobs, e.concJob(bin386, "386", 3_000_000+next386, plainPer/4, sites, false, ""))
				next386 += plainPer / 4
			}
		}
		e.RunJobs(jobs)
		for _, j := range jobs {
			if j.Err != nil {
				return 2, harnessErr("conc job %s from=%d: %v\n%s", j.Variant, j.From, j.Err, j.Stderr)
			}
			isRace := j.RaceLog != ""
			for _, r := range j.Results {
				a.add(prop, r)
				if isRace {
					raceRuns++
				} else {
					plainRuns++
				}
				if pol, ok := r.Cfg["policy"].(string); ok {
					policies[pol]++
				}
				if l, ok := r.Cfg["preempt_sites"].([]any); ok {
					for _, x := range l {
						if f, ok := x.(float64); ok {
							preemptSites[int(f)] = true
						}
					}
				}
				if hs, ok := r.Cfg["hit_sites"].(string); ok {
					if b, err := hex.DecodeString(hs); err == nil {
						for i := range b {
							if i < len(hitSites) {
								hitSites[i] |= b[i]
							}
						}
					}
				}
				if p := r.Probes["distinct_site_pairs"]; p > maxPairs {
					maxPairs = p
				}
				if len(r.Trace) > 0 && len(traced) < 4 && len(r.Violations) == 0 {
					traced = append(traced, r)
				}
			}
			switch {
			case j.ExitCode == 3 && len(j.Results) > 0:
				// the process stopped after a run that ended in a deadlock
				// (its tasks still hold their locks); the remaining indices
				// of the job were not executed
			case j.ExitCode == 0:
				if len(j.Results) != j.N {
					return 2, harnessErr("conc job %s from=%d produced %d of %d results:\n%s", j.Variant, j.From, len(j.Results), j.N, j.Stderr)
				}
			case j.ExitCode == 66 && isRace:
				report := readRaceLogs(j.RaceLog) + j.Stderr
				key, inLib, _ := parseRace(report)
				idx := j.From + len(j.Results) // the run in flight
				if key == "" {
					return 2, harnessErr("race-detector exit without a report (job from=%d):\n%s", j.From, report)
				}
				if !inLib {
					return 2, harnessErr("data race inside the harness itself (job from=%d):\n%s", j.From, report)
				}
				races = append(races, raceHit{strings.TrimSuffix(j.Variant, "-race"), idx, report, key, j.From})
			case j.ExitCode == 2 && fatalInLibrary(j.Stderr) != "":
				// the Go runtime killed the process from inside library code
				// (concurrent map access, an invalid unsafe.Pointer conversion
				// caught by the instrumented build, ...): on the unchanged
				// tree this never happens, so it is the library's doing
				idx := j.From + len(j.Results)
				fatals = append(fatals, fatalHit{strings.TrimSuffix(j.Variant, "-race"), isRace, idx, j.From, j.Stderr, fatalInLibrary(j.Stderr)})
			default:
				return 2, harnessErr("conc job %s from=%d exited %d:\n%s", j.Variant, j.From, j.ExitCode, j.Stderr)
			}
		}
		if len(a.Violating) > 0 || len(a.Harness) > 0 || len(races) > 0 || len(fatals) > 0 {
			break
		}
	}

	// ---- data races found by the race detector
	findings, err := loadFindings(e.VerifDir)
	if err != nil {
		return 2, harnessErr("known_findings.json: %v", err)
	}
	exit := 0
	nViol := 0
	seenKeys := map[string]bool{}
	shrinkBudget := budgetSeconds(e.Tier, 60, 300)
	for _, rh := range races {
		if seenKeys[rh.key] {
			nViol++
			continue
		}
		seenKeys[rh.key] = true
		v := kernel.Violation{Property: prop, Class: "data-race", Key: rh.key, Detail: "the race detector reports a data race between two simulated callers"}
		if f := matchFinding(findings, v); f != nil {
			fmt.Printf("KNOWN-FINDING: property=%s %s [%s/%s]\n", prop, f.What, f.Class, f.Key)
			continue
		}
		nViol++
		if exit == 1 && len(seenKeys) > 2 {
			continue
		}
		path, err := e.reportRace(bins, rh.variant, rh.idx, rh.from, rh.report, v, shrinkBudget)
		if err != nil {
			return 2, err
		}
		fmt.Printf("VIOLATION property=%s replay=%s\n", prop, path)
		_, _, summary := parseRace(rh.report)
		fmt.Printf("  class=data-race key=%s world=conc run=%d variant=%s-race seed=%d\n  %s\n", rh.key, rh.idx, rh.variant, e.Seed, strings.ReplaceAll(summary, "\n", "\n  "))
		exit = 1
	}

	seenFatal := map[string]bool{}
	for _, fh := range fatals {
		if seenFatal[fh.msg] {
			nViol++
			continue
		}
		seenFatal[fh.msg] = true
		v := kernel.Violation{Property: prop, Class: "fatal-runtime-error", Key: fh.msg, Detail: "the Go runtime aborted the process from inside library code while simulated callers were running: " + fh.msg}
		if f := matchFinding(findings, v); f != nil {
			fmt.Printf("KNOWN-FINDING: property=%s %s [%s/%s]\n", prop, f.What, f.Class, f.Key)
			continue
		}
		nViol++
		variant := fh.variant
		if fh.race {
			variant += "-race"
		}
		rf := &replay.File{Depth: e.Depth, Procs: ProcsFor(fh.from), Property: prop, World: "conc", Prop: prop, Variant: variant, VerifSeed: e.Seed, Idx: fh.idx, Violation: v, RaceLog: firstLines(fh.stderr, 60)}
		if rec, rerr := e.recordTapeTolerant(bins.plain[fh.variant], fh.variant, fh.idx, bins.sites); rerr == nil && rec != nil {
			rf.Tape, rf.Cfg, rf.Trace = rec.Tape, rec.Cfg, rec.Trace
		} else {
			rf.Note = "the tape is regenerated from verif_seed and run_index (the run does not complete in the plain build either)"
		}
		if fh.idx > fh.from {
			rf.Prefix = fh.idx - fh.from
		}
		dir := filepath.Join(e.VerifDir, "replays")
		_ = os.MkdirAll(dir, 0o755)
		path := filepath.Join(dir, fmt.Sprintf("C20-seed%d-conc-%d-fatal.json", e.Seed, fh.idx))
		if err := rf.Save(path); err != nil {
			return 2, harnessErr("write replay: %v", err)
		}
		fmt.Printf("VIOLATION property=%s replay=%s\n  class=fatal-runtime-error key=%s world=conc run=%d variant=%s seed=%d\n  %s\n", prop, path, fh.msg, fh.idx, variant, e.Seed, strings.ReplaceAll(firstLines(fh.stderr, 25), "\n", "\n  "))
		exit = 1
	}

	out, err := e.conclude(prop, a, func(r *kernel.Result) (string, string) {
		if r.World == "stall" {
			return stallBin, simStall.Name
		}
		v := strings.TrimSuffix(r.Variant, "-race")
		if strings.HasSuffix(r.Variant, "-race") {
			return bins.race[v], r.Variant
		}
		return bins.plain[v], r.Variant
	}, shrinkBudget)
	if err != nil {
		return 2, err
	}
	if out.exit == 1 {
		exit = 1
	}
	nViol += out.violations

	covered := 0
	neverHit := map[string]int{}
	var neverSample []string
	siteTable := loadSiteTable(filepath.Join(filepath.Dir(overlay), "sites.json"))
	for i := 1; i <= sites; i++ {
		if hitSites[i/8]&(1<<uint(i%8)) != 0 {
			covered++
			continue
		}
		if st, ok := siteTable[i]; ok {
			neverHit[st.File]++
			if len(neverSample) < 400 && !strings.HasPrefix(st.File, "export_verif") && !strings.HasSuffix(st.File, "export_verif.go") {
				neverSample = append(neverSample, fmt.Sprintf("%s:%d", st.File, st.Line))
			}
		}
	}
	cov := map[string]any{
		"evaluations":         a.Runs,
		"distinct_nontrivial": len(a.Sigs),
		"rule":                "case = one simulated run: 2..6 caller goroutines x 1..6 read-only operations on shared keys/points/scalars/tables under one tape-decided schedule at statement granularity. distinct_nontrivial = number of distinct schedule signatures (hash of the sequence of (task, yield site) context switches) among all runs; a run with zero context switches cannot occur (>= 2 tasks).",
		"bounds_depth":        fmt.Sprintf("%d (the stated bounds on history length / callers / operations are those of depth 1, the quick tier; the thorough tier runs at depth 2: twice the history length, up to 8 callers x 8 operations)", e.Depth),
		"samples": e.samplesOrFetch(traced, 2, func() *Job {
			return e.concJob(bins.plain["asm"], "asm", 2_000_000, 3, sites, false, "", "-trace")
		}),
		"runs_with_race_detector":                         raceRuns,
		"runs_plain":                                      plainRuns,
		"operations_executed":                             a.Ops,
		"simulated_time":                                  fmt.Sprintf("%d logical steps (yield points passed); no clock in this library", a.Steps),
		"fault_kinds_fired":                               a.Faults,
		"reach_probes":                                    a.Probes,
		"policies":                                        policies,
		"yield_sites_total":                               sites,
		"yield_sites_hit":                                 covered,
		"yield_sites_never_hit_by_file":                   neverHit,
		"yield_sites_never_hit_sample":                    neverSample,
		"distinct_preemption_sites":                       len(preemptSites),
		"max_distinct_site_pairs_per_run":                 maxPairs,
		"distinct_schedule_signatures":                    len(a.Sigs),
		"distinct_history_digests":                        len(a.Digests),
		"freerun_fallbacks":                               a.FreeRuns,
		"runs_by_variant":                                 a.Variants,
		"platform_386":                                    map[string]any{"state": state386, "runs": a.Variants["386"], "what": "conc-world runs executed by a GOARCH=386 build of library and harness (no race detector on that platform: solo-run equivalence, panics, fatal errors, progress)"},
		"runs_per_hour":                                   int(float64(a.Runs) / time.Since(e.Start).Hours()),
		"data_race_reports":                               len(races),
		"stalled_peer_world":                              map[string]any{"state": stallState, "runs": a.ByWorld["stall"], "simulated_clock_ms": a.StallMS, "what": "inside a testing/synctest bubble (go1.26.8) caller A signs with an entropy reader that parks it for 1000 h of simulated time; while it is parked caller B (same or another key) signs with its own reader / signs deterministically / verifies / derives a shared secret / imports a key and must return, within one simulated second, what it returns when run alone. A B that is blocked on a lock held by the parked A is found by a real-time watchdog (10 s)"},
		"race_oracle_long_stall_canary":                   e.staleCanaryNote,
		"race_oracle_canary":                              "before the batch: two simulated callers writing one variable under the scheduler were reported by the race detector, two callers writing private variables were not",
		"real_vs_stub":                                    "real: all of /repo with statement-level yield points inserted by go/ast through a build overlay (fiat arithmetic and the assembly run as atomic instructions), Go crypto, x/crypto, tuplehash, real goroutines, the Go race detector. stub: entropy devices; the scheduler replaces the Go scheduler's choice of who runs. model: per-call solo execution on an independent clone.",
		"violations_of_other_properties_seen_and_ignored": a.OtherProps,
	}
	ev := &Evidence{PropertyID: prop, Tier: e.Tier, Seed: int64(e.Seed), Level: "exploration", Coverage: cov, WallS: time.Since(e.Start).Seconds(), Violations: nViol,
		Assumptions: []string{
			"preemption granularity is the source statement of instrumented packages; the standard library, x/crypto, tuplehash, fiat and the assembly execute atomically",
			"the race detector is kept blind to the scheduler's hand-offs by runtime.RaceDisable/RaceEnable and //go:norace harness functions; it still sees every memory access of library code",
			"the race detector reports a race only while it can reconstruct the earlier access from that goroutine's event history; it runs with history_size=7 (the maximum: ten trace parts of about 32 K events per goroutine). An access is remembered for certain only while its goroutine has executed fewer than about three parts (roughly 64-96 K events) since; older parts are recycled - globally oldest first - whenever any goroutine of the process fills its own ten, so with one busy caller an access survives about half a million events, with several busy callers (or a goroutine the library runs in the background) less. Conflicting accesses separated by a longer stall of the first accessor's own execution can go unreported (a caller that is parked keeps its recent history indefinitely; the plain-build result oracles do not have this limit)",
			"at most 6 callers x 6 operations per run; schedules are sampled from VERIF_SEED",
		}}
	if err := writeEvidence(e.VerifDir, ev); err != nil {
		return 2, harnessErr("evidence: %v", err)
	}
	Logf("C20 %s: %d runs (%d under -race), %d steps, %d distinct schedules, sites hit %d/%d, %d race reports, %d violating runs, %.1fs", e.Tier, a.Runs, raceRuns, a.Steps, len(a.Sigs), covered, sites, len(races), nViol, time.Since(e.Start).Seconds())
	return exit, nil
}

// reportRace minimises a racy run and writes its replay file.
func (e *Env) reportRace(bins concBins, variant string, idx, jobFrom int, report string, v kernel.Violation, budget time.Duration) (string, error) {
	rec, err := e.recordTape(bins.plain[variant], variant, idx, bins.sites)
	if err != nil {
		return "", err
	}
	rf := &replay.File{Depth: e.Depth, Procs: ProcsFor(jobFrom), Property: "C20", World: "conc", Prop: "C20", Variant: variant + "-race", VerifSeed: e.Seed, Idx: idx, Violation: v, Cfg: rec.Cfg, Tape: rec.Tape, Trace: rec.Trace, RaceLog: report}
	ctr := 0
	lock := make(chan struct{}, 1)
	lock <- struct{}{}
	trial := func(t Tape) (bool, Tape) {
		<-lock
		ctr++
		tag := fmt.Sprintf("r%d", ctr)
		lock <- struct{}{}
		ok, _ := e.raceTrial(bins.race[variant], variant, rf, t, tag, bins.sites)
		if !ok {
			return false, nil
		}
		// canonical re-recording from the plain build
		res, _, err := e.replayConc(bins.plain[variant], variant, rf, t, tag+"p", bins.sites)
		if err != nil || res == nil {
			return true, t
		}
		return true, res.Tape
	}
	ok, canon := trial(rf.Tape)
	if !ok && idx > jobFrom {
		// the race may need the state the process accumulated in the runs
		// that preceded this one in its job
		rf.Prefix = idx - jobFrom
		if ok, canon = trial(rf.Tape); !ok {
			rf.Prefix = 0
		} else {
			Logf("race of run %d reproduces only after the %d runs that preceded it in its process", idx, rf.Prefix)
		}
	}
	if !ok {
		f := false
		rf.Reproduced = &f
		// report unminimised; the original report is attached
		Logf("race of run %d did not reproduce from its recorded tape in a fresh process; reporting it with the original report attached", idx)
		rf.Note = "the race was reported during the batch but did not reproduce when the run was replayed alone (the race detector reports a racy pair once per process and needs cold package state); original report attached"
	} else {
		small, trials, acc := Shrink(canon, trial, budget, e.Workers)
		Logf("minimised race: %d trials, %d accepted", trials, acc)
		ok2, rep2 := e.raceTrial(bins.race[variant], variant, rf, small, "final", bins.sites)
		if ok2 {
			n0, _ := tapeSize(canon)
			n1, _ := tapeSize(small)
			res, _, _ := e.replayConc(bins.plain[variant], variant, rf, small, "finalp", bins.sites)
			rf.Tape = small
			rf.Minimised = true
			rf.RaceLog = rep2
			if res != nil {
				rf.Trace, rf.Cfg = res.Trace, res.Cfg
			}
			rf.Note = fmt.Sprintf("minimised from %d to %d recorded choices in %d trials; replay with ./check --replay <this file> (re-executes the tape under the race detector in a fresh process)", n0, n1, trials)
		}
	}
	dir := filepath.Join(e.VerifDir, "replays")
	_ = os.MkdirAll(dir, 0o755)
	path := filepath.Join(dir, fmt.Sprintf("C20-seed%d-conc-%d-race.json", e.Seed, idx))
	if err := rf.Save(path); err != nil {
		return "", harnessErr("write replay: %v", err)
	}
	return path, nil
}

func (e *Env) replayConc(bin, variant string, rf *replay.File, tape Tape, tag string, sites int) (*kernel.Result, *Job, error) {
	f := *rf
	f.Tape = tape
	f.Trace = nil
	f.RaceLog = ""
	p := filepath.Join(e.WorkDir, fmt.Sprintf("trial-%s.json", tag))
	if err := f.Save(p); err != nil {
		return nil, nil, err
	}
	defer os.Remove(p)
	j := e.concJob(bin, variant, rf.Idx, 1, sites, false, "", "-replay", p)
	if j.Procs = rf.Procs; j.Procs == 0 {
		j.Procs = 1
	}
	e.runJob(j)
	if j.Err != nil {
		return nil, j, j.Err
	}
	if len(j.Results) != 1 {
		return nil, j, nil
	}
	return j.Results[0], j, nil
}

// raceTrial replays a tape under the race detector; ok iff the process halts
// with a data race that involves the library.
func (e *Env) raceTrial(raceBin, variant string, rf *replay.File, tape Tape, tag string, sites int) (bool, string) {
	f := *rf
	f.Tape = tape
	f.Trace = nil
	f.RaceLog = ""
	p := filepath.Join(e.WorkDir, fmt.Sprintf("rtrial-%s.json", tag))
	if err := f.Save(p); err != nil {
		return false, ""
	}
	defer os.Remove(p)
	j := e.concJob(raceBin, variant+"-race", rf.Idx, 1, sites, true, "t"+tag, "-replay", p)
	if j.Procs = rf.Procs; j.Procs == 0 {
		j.Procs = 1
	}
	e.runJob(j)
	if j.ExitCode != 66 {
		return false, ""
	}
	report := readRaceLogs(j.RaceLog) + j.Stderr
	_, inLib, _ := parseRace(report)
	return inLib, report
}

var _ = bytes.Equal

// raceCanary checks the race oracle itself before it is trusted: under the
// serialising scheduler two tasks writing one variable must be reported by
// the race detector, two tasks writing their own variables must not.
func (e *Env) raceCanary(raceBin string) error {
	for _, mode := range []string{"shared", "stale", "private"} {
		logPrefix := filepath.Join(e.WorkDir, "canary-"+mode)
		cmd := exec.Command(raceBin, "-noselftest", "-canary", mode)
		cmd.Dir = e.WorkDir
		cmd.Env = append(os.Environ(), "GOMAXPROCS=1", "GORACE=halt_on_error=1 exitcode=66 history_size=7 log_path="+logPrefix)
		out, err := cmd.CombinedOutput()
		code := 0
		if ee, ok := err.(*exec.ExitError); ok {
			code = ee.ExitCode()
		} else if err != nil {
			return harnessErr("race canary (%s): %v", mode, err)
		}
		report := readRaceLogs(logPrefix) + string(out)
		switch {
		case mode == "stale" && (code != 66 || !strings.Contains(report, "canaryTouch")) && !strings.Contains(report, "canary: 0 goroutines besides"):
			// goroutines of the library's own were busy during the canary:
			// their events evict other goroutines' history (the detector
			// recycles the globally oldest trace part).  A limit of the
			// oracle on this tree, stated in the evidence; not a broken set-up.
			e.staleCanaryNote = "FAILED with goroutines of the library's own running in the background: on this tree the race detector's memory of an access is shorter than on a tree without background goroutines (their events recycle other goroutines' trace parts)"
			Logf("race-oracle canary: the long-stall variant was NOT reported while goroutines started by the library itself were running; continuing with the short-memory oracle (see evidence)")
			continue
		case mode == "stale" && (code != 66 || !strings.Contains(report, "canaryTouch")):
			return harnessErr("the race oracle forgets: a write followed by 50 000 further calls (about 200 000 instrumented events) of the same caller was no longer reported when a stalled caller finally touched the variable (exit %d); the race detector's per-goroutine history (GORACE history_size) is too small for the stalls the scheduler imposes:\n%s", code, report)
		case mode == "shared" && (code != 66 || !strings.Contains(report, "canaryTouch")):
			return harnessErr("the race oracle is blind: two simulated callers wrote one variable under the scheduler and the race detector did not report it (exit %d):\n%s", code, report)
		case mode == "private" && code != 0:
			return harnessErr("the race oracle raises alarms of its own: two simulated callers that share nothing were reported (exit %d):\n%s", code, report)
		}
	}
	if e.staleCanaryNote != "" {
		return nil
	}
	e.staleCanaryNote = "ok: a write followed by 200 000 further events of its writer was still reported when a stalled caller touched the variable"
	Logf("race-oracle canary ok (shared variable reported, also after 200 000 intervening events of the writer; private variables silent)")
	return nil
}

type siteInfo struct {
	ID   int    `json:"id"`
	File string `json:"file"`
	Line int    `json:"line"`
}

// loadSiteTable reads the instrumenter's site table (id -> file:line).
func loadSiteTable(path string) map[int]siteInfo {
	out := map[int]siteInfo{}
	b, err := os.ReadFile(path)
	if err != nil {
		return out
	}
	var l []siteInfo
	if json.Unmarshal(b, &l) != nil {
		return out
	}
	for _, s := range l {
		out[s.ID] = s
	}
	return out
}

// fatalInLibrary returns the message of a Go runtime "fatal error" whose
// goroutine trace runs through library code ("" otherwise).
func fatalInLibrary(stderr string) string {
	i := strings.Index(stderr, "fatal error: ")
	if i < 0 {
		return ""
	}
	rest := stderr[i+len("fatal error: "):]
	msg := strings.SplitN(rest, "\n", 2)[0]
	if !strings.Contains(rest, "gitlab.com/yawning/secp256k1-voi") {
		return ""
	}
	return strings.TrimSpace(msg)
}

func firstLines(s string, n int) string {
	l := strings.Split(s, "\n")
	if len(l) > n {
		l = l[:n]
	}
	return strings.Join(l, "\n")
}

// recordTapeTolerant is recordTape for runs that may kill their process.
func (e *Env) recordTapeTolerant(plainBin, variant string, idx, sites int) (*kernel.Result, error) {
	j := e.concJob(plainBin, variant, idx, 1, sites, false, "", "-tape", "-trace")
	e.runJob(j)
	if len(j.Results) != 1 {
		return nil, fmt.Errorf("no result")
	}
	return j.Results[0], nil
}
