package driver

import (
	"testing"
	"time"

	"verif/sim/kernel"
)

// The shrinker reduces a tape while a predicate (standing in for "the same
// violation is reproduced") keeps holding.
func TestShrinkMinimises(t *testing.T) {
	tape := Tape{
		"cfg":    {{Label: "ntasks", N: 5, V: 4}, {Label: "policy", N: 5, V: 3}},
		"t0.ops": nil,
		"sched":  nil,
	}
	for i := 0; i < 40; i++ {
		tape["t0.ops"] = append(tape["t0.ops"], kernel.Choice{Label: "more", N: 4, V: 1}, kernel.Choice{Label: "kind", N: 50, V: uint64(i % 50)})
		tape["sched"] = append(tape["sched"], kernel.Choice{Label: "next", N: 4, V: uint64(i % 4)})
	}
	tape["t0.ops"] = append(tape["t0.ops"], kernel.Choice{Label: "more", N: 4, V: 0})
	// the "violation" needs one operation of kind 17 and nothing else
	trial := func(c Tape) (bool, Tape) {
		for _, ch := range c["t0.ops"] {
			if ch.Label == "kind" && ch.V == 17 {
				return true, cloneTape(c)
			}
		}
		return false, nil
	}
	n0, _ := tapeSize(tape)
	small, trials, _ := Shrink(tape, trial, 20*time.Second, 4)
	if ok, _ := trial(small); !ok {
		t.Fatalf("the minimised tape no longer reproduces")
	}
	n1, nz := tapeSize(small)
	if n1 >= n0/4 {
		t.Fatalf("hardly shrunk: %d -> %d choices in %d trials", n0, n1, trials)
	}
	t.Logf("%d -> %d choices (%d non-zero) in %d trials", n0, n1, nz, trials)
}
