package driver

import (
	"fmt"
	"os"
	"os/exec"
	"strings"
	"time"

	"verif/sim/kernel"
)

func budgetSeconds(tier string, quick, thorough int) time.Duration {
	if s := os.Getenv("VERIF_BUDGET_S"); s != "" {
		var n int
		if _, err := fmt.Sscanf(s, "%d", &n); err == nil && n > 0 {
			return time.Duration(n) * time.Second
		}
	}
	if tier == "thorough" {
		return time.Duration(thorough) * time.Second
	}
	return time.Duration(quick) * time.Second
}

var simrunAsm = Variant{Name: "asm", Pkg: "./cmd/simrun", Tags: "verif"}
var simrunPurego = Variant{Name: "purego", Pkg: "./cmd/simrun", Tags: "verif,purego"}

// simrunAsmV3 is the assembly build for GOAMD64=v3: another build
// configuration of "without the purego tag" (a tree may select different
// assembly by microarchitecture level).
var simrunAsmV3 = Variant{Name: "asm-v3", Pkg: "./cmd/simrun", Tags: "verif", Env: []string{"GOAMD64=v3"}}

// buildV3 builds the GOAMD64=v3 variant and checks that this CPU runs it.
func (e *Env) buildV3() (string, string) {
	bin, err := e.Build(simrunAsmV3)
	if err != nil {
		Logf("the GOAMD64=v3 build failed: skipped\n%v", err)
		return "", "skipped: does not build with GOAMD64=v3"
	}
	cmd := exec.Command(bin, "-selftest")
	if out, err := cmd.CombinedOutput(); err != nil {
		Logf("this CPU does not run GOAMD64=v3 binaries (%v: %s): skipped", err, strings.TrimSpace(string(out)))
		return "", "skipped: this CPU does not run GOAMD64=v3 binaries"
	}
	return bin, "ran"
}

// simrun386 is the library on a 32-bit platform (GOARCH=386; the kernel
// of this sandbox runs such binaries): int and uint are 32 bits wide, the
// portable code paths are selected.  The statements of C08, C09, C14, C18
// and C03 name no platform.
var simrun386 = Variant{Name: "386", Pkg: "./cmd/simrun", Tags: "verif", Env: []string{"GOARCH=386"}}

// build386 builds the 32-bit variant and checks that it runs here.
func (e *Env) build386() (string, string) {
	bin, err := e.Build(simrun386)
	if err != nil {
		Logf("the GOARCH=386 build failed: skipped\n%v", err)
		return "", "skipped: does not build for GOARCH=386"
	}
	if out, err := exec.Command(bin, "-selftest").CombinedOutput(); err != nil {
		Logf("this machine does not run GOARCH=386 binaries (%v: %s): skipped", err, strings.TrimSpace(string(out)))
		return "", "skipped: this machine does not run GOARCH=386 binaries"
	}
	return bin, "ran"
}

// simrunGo126 is the library built by the newer toolchain of the sandbox:
// files and branches guarded by a Go-version build constraint (//go:build
// go1.25, hash.Cloner fast paths, new standard-library APIs) only exist
// there.  No statement names a toolchain.
var simrunGo126 = Variant{Name: "go1.26", Pkg: "./cmd/simrun", Tags: "verif", Go: "go1.26.8"}

func (e *Env) buildGo126() (string, string) {
	if _, err := exec.LookPath(simrunGo126.Go); err != nil {
		return "", "skipped: " + simrunGo126.Go + " is not on PATH"
	}
	bin, err := e.Build(simrunGo126)
	if err != nil {
		Logf("the %s build of simrun failed: skipped\n%v", simrunGo126.Go, err)
		return "", "skipped: does not build with " + simrunGo126.Go
	}
	return bin, "ran"
}

// simStall is the stall world: a test binary built with the newer toolchain
// of the sandbox, because it runs the signers inside testing/synctest bubbles
// (fake clock, quiescence detection).
var simStall = Variant{Name: "asm-go1.26", Pkg: "./sim/worlds/stall", Tags: "verif", Go: "go1.26.8", TestBin: true}

// buildStall builds the stall world, or explains why it cannot run here.
func (e *Env) buildStall() (string, string) {
	if _, err := exec.LookPath(simStall.Go); err != nil {
		Logf("the stall world needs %s (testing/synctest), which is not on PATH: skipped", simStall.Go)
		return "", "skipped: " + simStall.Go + " is not on PATH"
	}
	bin, err := e.Build(simStall)
	if err != nil {
		// the harness builds with the default toolchain; if only the newer
		// one rejects the tree that is reported, not turned into a verdict
		Logf("the stall world does not build with %s: skipped\n%v", simStall.Go, err)
		return "", "skipped: does not build with " + simStall.Go
	}
	return bin, "ran"
}

// samplesFrom extracts a few written-out histories.
func samplesFrom(results []*kernel.Result, max int) []any {
	var out []any
	for _, r := range results {
		if len(r.Trace) == 0 || r.Ops == 0 {
			continue
		}
		tr := r.Trace
		if len(tr) > 14 {
			tr = append(append([]string{}, tr[:14]...), fmt.Sprintf("... (%d more records)", len(r.Trace)-14))
		}
		out = append(out, map[string]any{"world": r.World, "run_index": r.Idx, "run_seed": r.RunSeed, "ops": r.Ops, "faults_fired": r.Faults, "history": tr})
		if len(out) >= max {
			break
		}
	}
	return out
}

// samplesOrFetch returns written-out sample histories; if the batch happened
// to yield none (every traced run excluded), it runs one more small traced job
// so that the evidence always carries concrete histories.
func (e *Env) samplesOrFetch(traced []*kernel.Result, max int, mk func() *Job) []any {
	out := samplesFrom(traced, max)
	for attempt := 0; len(out) == 0 && attempt < 3 && mk != nil; attempt++ {
		j := mk()
		j.From += attempt * j.N
		e.runJob(j)
		out = samplesFrom(j.Results, max)
	}
	if out == nil {
		out = []any{}
	}
	return out
}

// roundsUntil runs rounds of jobs until the budget is used or a violation of
// `prop` has been seen.
func (e *Env) roundsUntil(prop string, a *Agg, budget time.Duration, minRounds int, mk func(round int) []*Job) ([]*kernel.Result, error) {
	var traced []*kernel.Result
	start := time.Now()
	for round := 0; ; round++ {
		if round >= minRounds && time.Since(start) > budget {
			break
		}
		jobs := mk(round)
		if len(jobs) == 0 {
			break
		}
		e.RunJobs(jobs)
		for _, j := range jobs {
			if j.Err != nil {
				return nil, harnessErr("job %s %s from=%d: %v\n%s", j.World, j.Variant, j.From, j.Err, j.Stderr)
			}
			// exit code 3: the process abandoned a history whose library call
			// did not return (reported as a violation in its last result) and
			// did not execute the remaining indices of the job
			abandoned := j.ExitCode == 3 && len(j.Results) > 0
			if j.ExitCode != 0 && !abandoned {
				return nil, harnessErr("job %s %s from=%d exited %d:\n%s", j.World, j.Variant, j.From, j.ExitCode, j.Stderr)
			}
			if len(j.Results) != j.N && !abandoned {
				return nil, harnessErr("job %s %s from=%d produced %d of %d results:\n%s", j.World, j.Variant, j.From, len(j.Results), j.N, j.Stderr)
			}
			for _, r := range j.Results {
				a.add(prop, r)
				if len(r.Trace) > 0 && len(traced) < 8 && len(r.Violations) == 0 {
					traced = append(traced, r)
				}
			}
		}
		if len(a.Violating) > 0 || len(a.Harness) > 0 {
			break
		}
	}
	return traced, nil
}

// first386 is the first run index of the histories executed on the 32-bit
// platform (far away from the indices of the other jobs).
const first386 = 9000000

// CheckSign decides C09, C08 or C14 in world `sign`.
func CheckSign(e *Env, prop string) (int, error) {
	bin, err := e.Build(simrunAsm)
	if err != nil {
		return 2, err
	}
	if err := e.RefSelfTest(bin); err != nil {
		return 2, err
	}
	stallBin, stallState := "", "not part of this property"
	if prop == "C09" || prop == "C14" {
		stallBin, stallState = e.buildStall()
	}
	stallRuns := 4000
	if e.Tier == "thorough" {
		stallRuns = 64000
	}
	// a few histories on a 32-bit platform (several times slower there)
	binNew, stateNew := e.buildGo126()
	bin386, state386 := e.build386()
	n386 := 16
	if e.Tier == "thorough" {
		n386 = 160
	}
	a := newAgg()
	budget := budgetSeconds(e.Tier, 45, 840)
	perJob, perRound := 25, 16*25
	if e.Tier == "thorough" {
		perJob, perRound = 100, 16*100
	}
	traced, err := e.roundsUntil(prop, a, budget, 1, func(round int) []*Job {
		var jobs []*Job
		if round == 0 {
			// the exhaustive single-fault layer, once
			for s := 0; s < 16; s++ {
				jobs = append(jobs, &Job{Bin: bin, Variant: "asm", World: "signenum", Prop: prop, From: s, N: 1})
			}
			jobs = append(jobs, &Job{Bin: bin, Variant: "asm", World: "sign", Prop: prop, From: 0, N: 4, Extra: []string{"-trace"}})
			jobs = append(jobs, SplitRuns(bin, "asm", "sign", prop, 4, perRound-4, perJob)...)
			if prop == "C14" {
				jobs = append(jobs, SplitRuns(bin, "asm", "pool", prop, 0, 4000, 1000)...)
			}
			if stallBin != "" {
				// signers whose entropy reader stalls, under a simulated clock
				jobs = append(jobs, SplitRuns(stallBin, simStall.Name, "stall", prop, 0, stallRuns, stallRuns/16)...)
			}
			if bin386 != "" {
				jobs = append(jobs, SplitRuns(bin386, simrun386.Name, "sign", prop, first386, n386, n386/8)...)
			}
			if binNew != "" {
				// the enumerated layer once more, and some histories, as the
				// newer toolchain builds the library
				for s := 0; s < 16; s++ {
					jobs = append(jobs, &Job{Bin: binNew, Variant: simrunGo126.Name, World: "signenum", Prop: prop, From: s, N: 1})
				}
				jobs = append(jobs, SplitRuns(binNew, simrunGo126.Name, "sign", prop, first386+1000000, 4*perJob, perJob)...)
			}
			return jobs
		}
		jobs = SplitRuns(bin, "asm", "sign", prop, round*perRound, perRound, perJob)
		if prop == "C14" {
			// key derivation from points in any projective representative and
			// after any history: pool-world histories tuned to Schnorr key
			// construction, judged against the model (replaces 4 sign jobs)
			jobs = append(jobs[:len(jobs)-4], SplitRuns(bin, "asm", "pool", prop, round*4000, 4000, 1000)...)
		}
		return jobs
	})
	if err != nil {
		return 2, err
	}
	out, err := e.conclude(prop, a, func(r *kernel.Result) (string, string) {
		if r.World == "stall" {
			return stallBin, simStall.Name
		}
		if r.Variant == simrun386.Name {
			return bin386, simrun386.Name
		}
		if r.Variant == simrunGo126.Name {
			return binNew, simrunGo126.Name
		}
		return bin, "asm"
	}, budgetSeconds(e.Tier, 60, 300))
	if err != nil {
		return 2, err
	}
	level := "exploration"
	rule := "cases = (a) every case of the enumerated single-fault layer (error position 0..33 x error kind x delivery x signer kind, every partition with/without zero-length reads, every stuck payload, every candidate-class sequence of length <= 3, retry-limit streams, sampler error positions 0..96, RFC 6979 generator grid) and (b) seeded random multi-fault signing histories (<= 64 operations). evaluations = sampled histories + enumerated cases. distinct_nontrivial = (distinct history digests - SHA-256 over every step's inputs and outputs - among sampled histories in which at least one injected fault actually fired) + (enumerated cases with a distinct per-case digest in which a fault fired); digests are per shard, so identical cases in different shards would be counted twice (there are none by construction: each case has a distinct configuration)."
	if prop == "C09" {
		level = "fault_enumeration"
	}
	sampledNontrivial := len(a.NonTrivial) - a.ByWorld["signenum"]
	if sampledNontrivial < 0 {
		sampledNontrivial = 0
	}
	if prop == "C14" {
		rule += " For C14, (c) seeded pool-world call histories (<= 80 API calls over a mutable object pool, tuned to Schnorr key construction from byte strings, ECDSA keys and pool points in re-randomised projective representatives) are counted among the sampled histories; every derived Schnorr key is judged against the model."
	}
	cov := map[string]any{
		"evaluations":                           a.ByWorld["sign"] + a.ByWorld["pool"] + a.ByWorld["stall"] + a.EnumCases,
		"distinct_nontrivial":                   sampledNontrivial + a.EnumDistinctNontrivial,
		"sampled_histories":                     a.ByWorld["sign"] + a.ByWorld["pool"] + a.ByWorld["stall"],
		"stall_world":                           map[string]any{"state": stallState, "runs": a.ByWorld["stall"], "simulated_clock_ms": a.StallMS, "what": "one signing call per run inside a testing/synctest bubble (go1.26.8): the entropy reader delivers 0..31 bytes in short reads and then blocks for 1 s .. 1000 h of simulated time before failing; the signer is looked at after 1 ms / 5 s / 10 min of simulated time and must still be waiting, and must fail with its reader afterwards. Every timer the library arms reads the fake clock."},
		"platform_386":                          map[string]any{"state": state386, "runs": a.Variants[simrun386.Name], "what": "sign-world histories executed by a GOARCH=386 build of the library and the harness (32-bit int/uint, portable code paths); same oracles"},
		"toolchain_go1_26":                      map[string]any{"state": stateNew, "runs": a.Variants[simrunGo126.Name], "what": "the enumerated layer and some sign-world histories executed by a build of library and harness made with go1.26.8 (code behind Go-version build constraints exists only there); same oracles"},
		"sampled_distinct_nontrivial_histories": sampledNontrivial,
		"enumerated_distinct_nontrivial_cases":  a.EnumDistinctNontrivial,
		"rule":                                  rule,
		"bounds_depth":                          fmt.Sprintf("%d (the stated bounds on history length / callers / operations are those of depth 1, the quick tier; the thorough tier runs at depth 2: twice the history length, up to 8 callers x 8 operations)", e.Depth),
		"samples": e.samplesOrFetch(traced, 3, func() *Job {
			return &Job{Bin: bin, Variant: "asm", World: "sign", Prop: prop, From: 0, N: 4, Extra: []string{"-trace"}}
		}),
		"operations_executed":                             a.Ops,
		"enumerated_fault_cases":                          a.EnumCases,
		"enumerated_fault_cases_repeated_in_other_builds": a.EnumCasesOtherBuilds,
		"enumerated_layer_total":                          a.EnumTotal,
		"exhaustive":                                      false,
		"exhaustive_note":                                 "the single-fault layer (enumerated_fault_cases == enumerated_layer_total) is enumerated completely on every run; the multi-fault histories are sampled",
		"fault_kinds_fired":                               a.Faults,
		"reach_probes":                                    a.Probes,
		"distinct_history_digests":                        len(a.Digests),
		"runs_by_world":                                   a.ByWorld,
		"simulated_time":                                  fmt.Sprintf("%d logical steps (signing operations; this world has no clock)", a.Steps),
		"runs_per_hour":                                   int(float64(a.Runs) / time.Since(e.Start).Hours()),
		"real_vs_stub":                                    "real: all of /repo (secec, secec/bitcoin, curve, field, assembly), Go crypto, x/crypto, tuplehash. stub: the entropy device (io.Reader) and crypto/rand.Reader when rand == nil. model: sim/ref (math/big).",
		"violations_of_other_properties_seen_and_ignored": a.OtherProps,
	}
	ev := &Evidence{PropertyID: prop, Tier: e.Tier, Seed: int64(e.Seed), Level: level, Coverage: cov, WallS: time.Since(e.Start).Seconds(), Violations: out.violations,
		Assumptions: []string{
			"reference models (sim/ref) are pinned to RFC 6979 / BIP-340 / Wycheproof vectors by a self-test at the start of every process",
			"hash functions and HMAC from the Go standard library are trusted",
			"sampling, not proof: only the enumerated single-fault layer is exhaustive",
		}}
	if err := writeEvidence(e.VerifDir, ev); err != nil {
		return 2, harnessErr("evidence: %v", err)
	}
	Logf("%s %s: %d runs, %d ops, %d enumerated cases (of %d), %d distinct nontrivial histories, %d violating runs, %.1fs", prop, e.Tier, a.Runs, a.Ops, a.EnumCases, a.EnumTotal, len(a.NonTrivial), out.violations, time.Since(e.Start).Seconds())
	return out.exit, nil
}
