package driver

import (
	"fmt"
	"strings"

	"verif/sim/kernel"
	"verif/sim/replay"
)

// Check runs the check of one property.
func Check(verifDir, prop, tier string, seed uint64) (int, error) {
	e, err := NewEnv(verifDir, tier, seed)
	if err != nil {
		return 2, err
	}
	defer e.Cleanup()
	Logf("check %s tier=%s VERIF_SEED=%d repo=%s", prop, tier, seed, e.RepoDir)
	switch prop {
	case "C08", "C09", "C14":
		return CheckSign(e, prop)
	case "C18", "C03":
		return CheckPool(e, prop)
	case "C20":
		return CheckConc(e)
	case "C19":
		return CheckC19(e)
	}
	return 2, harnessErr("property %s is not claimed by this machinery (see MANIFEST.json not_applicable)", prop)
}

func variantByName(world, name string) (Variant, bool) {
	switch name {
	case "asm":
		return simrunAsm, true
	case "purego":
		return simrunPurego, true
	case "asm-v3":
		return simrunAsmV3, true
	case asmCPUOff:
		return simrunAsm, true
	case simrunAsmRaceBuild.Name:
		return simrunAsmRaceBuild, true
	case simrun386.Name:
		return simrun386, true
	case simrunGo126.Name:
		return simrunGo126, true
	case "asm-go1.26":
		return simStall, true
	}
	return Variant{}, false
}

// Replay re-executes a replay file in a fresh process and prints what
// happened.  Exit 1 iff the recorded violation is reproduced.
func Replay(verifDir, path string) (int, error) {
	rf, err := replay.Load(path)
	if err != nil {
		return 2, harnessErr("load %s: %v", path, err)
	}
	e, err := NewEnv(verifDir, "quick", rf.VerifSeed)
	if err != nil {
		return 2, err
	}
	defer e.Cleanup()
	if rf.Depth > 1 {
		e.Depth = rf.Depth
	}
	if rf.World == "conc" {
		return replayConcFile(e, rf, path)
	}
	if strings.HasSuffix(rf.Variant, "+purego") {
		av := simrunAsm
		if rf.Variant == simrunAsmV3.Name+"+purego" {
			av = simrunAsmV3
		}
		if rf.Variant == simrunAsmRaceBuild.Name+"+purego" {
			av = simrunAsmRaceBuild
		}
		binA, err := e.Build(av)
		if err != nil {
			return 2, err
		}
		binP, err := e.Build(simrunPurego)
		if err != nil {
			return 2, err
		}
		ok, ra, rp := e.divergenceTrial(binA, binP, rf, rf.Tape, "replay")
		if ra == nil || rp == nil {
			return 2, harnessErr("replay failed")
		}
		fmt.Printf("asm digest:    %s\npurego digest: %s\n", ra.Digest, rp.Digest)
		if ok {
			i, x, y := firstDiff(ra.Trace, rp.Trace)
			fmt.Printf("VIOLATION property=C19 replay=%s\n  class=build-divergence first differing record #%d\n  asm:    %s\n  purego: %s\n", path, i, x, y)
			return 1, nil
		}
		fmt.Printf("replay of %s: the two builds agree on the current tree\n", path)
		return 0, nil
	}
	v, ok := variantByName(rf.World, rf.Variant)
	if !ok {
		return 2, harnessErr("unknown variant %q", rf.Variant)
	}
	bin, err := e.Build(v)
	if err != nil {
		return 2, err
	}
	res, j, err := e.replayOnce(bin, rf.Variant, rf, rf.Tape, nil, "replay")
	if err != nil || res == nil {
		msg := ""
		if j != nil {
			msg = j.Stderr
		}
		return 2, harnessErr("replay failed: %v\n%s", err, msg)
	}
	for _, line := range res.Trace {
		fmt.Println(line)
	}
	fmt.Printf("history digest: %s\n", res.Digest)
	return reportReplay(rf, res, path)
}

func reportReplay(rf *replay.File, res *kernel.Result, path string) (int, error) {
	for _, x := range res.Violations {
		if x.Property == rf.Violation.Property && x.Class == rf.Violation.Class {
			fmt.Printf("VIOLATION property=%s replay=%s\n  class=%s key=%s\n  %s\n", x.Property, path, x.Class, x.Key, x.Detail)
			return 1, nil
		}
	}
	fmt.Printf("replay of %s did not reproduce %s/%s on the current tree\n", path, rf.Violation.Property, rf.Violation.Class)
	return 0, nil
}

func replayConcFile(e *Env, rf *replay.File, path string) (int, error) {
	overlay, sites, err := e.instrumentRepo()
	if err != nil {
		return 2, err
	}
	base := strings.TrimSuffix(rf.Variant, "-race")
	if rf.Violation.Class == "fatal-runtime-error" {
		bin, err := e.Build(concVariant(rf.Variant, overlay))
		if err != nil {
			return 2, err
		}
		// the whole job prefix is re-executed from the seed (the tape may be absent)
		from := rf.Idx - rf.Prefix
		j := e.concJob(bin, rf.Variant, from, rf.Prefix+1, sites, strings.HasSuffix(rf.Variant, "-race"), "replay")
		if j.Procs = rf.Procs; j.Procs == 0 {
			j.Procs = 1
		}
		e.runJob(j)
		if msg := fatalInLibrary(j.Stderr); msg != "" {
			fmt.Printf("VIOLATION property=%s replay=%s\n  class=fatal-runtime-error key=%s\n  %s\n", rf.Property, path, msg, strings.ReplaceAll(firstLines(j.Stderr, 25), "\n", "\n  "))
			return 1, nil
		}
		fmt.Printf("replay of %s: the process was not aborted by the Go runtime on the current tree\n", path)
		return 0, nil
	}
	plain, err := e.Build(concVariant(base, overlay))
	if err != nil {
		return 2, err
	}
	res, j, err := e.replayConc(plain, base, rf, rf.Tape, "replay", sites)
	if err != nil || res == nil {
		msg := ""
		if j != nil {
			msg = j.Stderr
		}
		return 2, harnessErr("replay failed: %v\n%s", err, msg)
	}
	for _, line := range res.Trace {
		fmt.Println(line)
	}
	fmt.Printf("history digest: %s  schedule signature: %s\n", res.Digest, res.Sig)
	if rf.Violation.Class == "data-race" {
		raceBin, err := e.Build(concVariant(base+"-race", overlay))
		if err != nil {
			return 2, err
		}
		ok, report := e.raceTrial(raceBin, base, rf, rf.Tape, "replay", sites)
		if ok {
			key, _, summary := parseRace(report)
			fmt.Printf("VIOLATION property=%s replay=%s\n  class=data-race key=%s\n  %s\n", rf.Property, path, key, strings.ReplaceAll(summary, "\n", "\n  "))
			return 1, nil
		}
		fmt.Printf("replay of %s under the race detector did not reproduce a data race on the current tree\n", path)
		return 0, nil
	}
	return reportReplay(rf, res, path)
}

// SelfTest is filled in by selftest.go.
