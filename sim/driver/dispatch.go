package driver

import (
	"fmt"

	"verif/sim/kernel"
	"verif/sim/replay"
)

// Check runs the check of one property.
func Check(verifDir, prop, tier string, seed uint64) (int, error) {
	e, err := NewEnv(verifDir, tier, seed)
	if err != nil {
		return 2, err
	}
	defer e.Cleanup()
	Logf("check %s tier=%s VERIF_SEED=%d repo=%s", prop, tier, seed, e.RepoDir)
	switch prop {
	case "C08", "C09", "C14":
		return CheckSign(e, prop)
	case "C18", "C03":
		return CheckPool(e, prop)
	}
	return 2, harnessErr("property %s is not claimed by this machinery (see MANIFEST.json not_applicable)", prop)
}

func variantByName(world, name string) (Variant, bool) {
	switch name {
	case "asm":
		return simrunAsm, true
	case "purego":
		return simrunPurego, true
	}
	return Variant{}, false
}

// Replay re-executes a replay file in a fresh process and prints what
// happened.  Exit 1 iff the recorded violation is reproduced.
func Replay(verifDir, path string) (int, error) {
	rf, err := replay.Load(path)
	if err != nil {
		return 2, harnessErr("load %s: %v", path, err)
	}
	e, err := NewEnv(verifDir, "quick", rf.VerifSeed)
	if err != nil {
		return 2, err
	}
	defer e.Cleanup()
	v, ok := variantByName(rf.World, rf.Variant)
	if !ok {
		return 2, harnessErr("unknown variant %q", rf.Variant)
	}
	bin, err := e.Build(v)
	if err != nil {
		return 2, err
	}
	res, j, err := e.replayOnce(bin, rf.Variant, rf, rf.Tape, nil, "replay")
	if err != nil || res == nil {
		msg := ""
		if j != nil {
			msg = j.Stderr
		}
		return 2, harnessErr("replay failed: %v\n%s", err, msg)
	}
	for _, line := range res.Trace {
		fmt.Println(line)
	}
	fmt.Printf("history digest: %s\n", res.Digest)
	return reportReplay(rf, res, path)
}

func reportReplay(rf *replay.File, res *kernel.Result, path string) (int, error) {
	for _, x := range res.Violations {
		if x.Property == rf.Violation.Property && x.Class == rf.Violation.Class {
			fmt.Printf("VIOLATION property=%s replay=%s\n  class=%s key=%s\n  %s\n", x.Property, path, x.Class, x.Key, x.Detail)
			return 1, nil
		}
	}
	fmt.Printf("replay of %s did not reproduce %s/%s on the current tree\n", path, rf.Violation.Property, rf.Violation.Class)
	return 0, nil
}

// SelfTest is filled in by selftest.go.
