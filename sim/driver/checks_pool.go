package driver

import (
	"fmt"
	"time"

	"verif/sim/kernel"
)

// CheckPool decides C18 or C03 in world `pool`.
func CheckPool(e *Env, prop string) (int, error) {
	bin, err := e.Build(simrunAsm)
	if err != nil {
		return 2, err
	}
	if err := e.RefSelfTest(bin); err != nil {
		return 2, err
	}
	// both builds, alternating by round (state that only one build keeps
	// between calls - a pool, a cache - is history like any other)
	binPure, err := e.Build(simrunPurego)
	if err != nil {
		return 2, err
	}
	// C18's "key objects are immutable" also over simulated time
	stallBin, stallState := "", "not part of this property"
	if prop == "C18" {
		stallBin, stallState = e.buildStall()
	}
	stallRuns := 2000
	if e.Tier == "thorough" {
		stallRuns = 32000
	}
	bin386, state386 := e.build386()
	a := newAgg()
	budget := budgetSeconds(e.Tier, 30, 840)
	perJob, perRound := 500, 16*500
	if e.Tier == "thorough" {
		perJob, perRound = 2500, 16*2500
	}
	traced, err := e.roundsUntil(prop, a, budget, 1, func(round int) []*Job {
		b, v := bin, "asm"
		if binPure != "" && round%2 == 1 {
			b, v = binPure, "purego"
		}
		var jobs []*Job
		from := round * perRound
		if round == 0 {
			jobs = append(jobs, &Job{Bin: b, Variant: v, World: "pool", Prop: prop, From: 0, N: 6, Extra: []string{"-trace"}})
			jobs = append(jobs, SplitRuns(b, v, "pool", prop, 6, perRound-6, perJob)...)
			if stallBin != "" {
				jobs = append(jobs, SplitRuns(stallBin, simStall.Name, "stall", prop, 0, stallRuns, stallRuns/16)...)
			}
			if bin386 != "" {
				// the library on a 32-bit platform
				jobs = append(jobs, SplitRuns(bin386, simrun386.Name, "pool", prop, first386, perJob, perJob/4)...)
			}
			return jobs
		}
		if bin386 != "" && round%8 == 4 {
			b, v = bin386, simrun386.Name
		}
		return SplitRuns(b, v, "pool", prop, from, perRound, perJob)
	})
	if err != nil {
		return 2, err
	}
	out, err := e.conclude(prop, a, func(r *kernel.Result) (string, string) {
		if r.World == "stall" {
			return stallBin, simStall.Name
		}
		if r.Variant == "purego" {
			return binPure, "purego"
		}
		if r.Variant == simrun386.Name {
			return bin386, simrun386.Name
		}
		return bin, "asm"
	}, budgetSeconds(e.Tier, 60, 300))
	if err != nil {
		return 2, err
	}
	rule := "case = one seeded call history (<= 80 steps) over a pool of 6 points (some zero-value), 6 scalars, <= 16 key objects and tracked caller buffers; receivers and arguments drawn with replacement. distinct_nontrivial = number of distinct history digests (SHA-256 over every step's inputs and outputs) among histories in which at least one injected fault fired (failing call, uninitialised operand, caller mutation, slot reset, re-randomised representative)."
	cov := map[string]any{
		"evaluations":         a.Runs,
		"platform_386":        map[string]any{"state": state386, "runs": a.Variants[simrun386.Name], "what": "pool-world histories executed by a GOARCH=386 build of the library and the harness (32-bit int/uint, portable code paths); same oracles"},
		"distinct_nontrivial": len(a.NonTrivial),
		"rule":                rule,
		"bounds_depth":        fmt.Sprintf("%d (the stated bounds on history length / callers / operations are those of depth 1, the quick tier; the thorough tier runs at depth 2: twice the history length, up to 8 callers x 8 operations)", e.Depth),
		"samples": e.samplesOrFetch(traced, 3, func() *Job {
			return &Job{Bin: bin, Variant: "asm", World: "pool", Prop: prop, From: 0, N: 6, Extra: []string{"-trace"}}
		}),
		"aging_world":              map[string]any{"state": stallState, "runs": a.ByWorld["stall"], "simulated_clock_ms": a.StallMS, "what": "C18 only: key objects (three constructors) are built inside a testing/synctest bubble (go1.26.8), optionally observed, left alone for 1 s .. 1000 h of simulated time - every timer the library may have armed fires - and observed again (encodings, RFC 6979 signature, BIP-340 signature under zero aux, ECDH, verdicts); they must read as fresh keys from the same bytes do"},
		"operations_executed":      a.Ops,
		"fault_kinds_fired":        a.Faults,
		"reach_probes":             a.Probes,
		"distinct_history_digests": len(a.Digests),
		"runs_by_variant":          a.Variants,
		"simulated_time":           fmt.Sprintf("%d logical steps (API calls; this world has no clock)", a.Steps),
		"runs_per_hour":            int(float64(a.Runs) / time.Since(e.Start).Hours()),
		"real_vs_stub":             "real: all of /repo (curve, field, secec, secec/bitcoin, h2c, assembly or purego). stub: nothing. model: sim/ref exact affine group law (C03) and validity predicates (C18).",
		"violations_of_other_properties_seen_and_ignored": a.OtherProps,
	}
	ev := &Evidence{PropertyID: prop, Tier: e.Tier, Seed: int64(e.Seed), Level: "exploration", Coverage: cov, WallS: time.Since(e.Start).Seconds(), Violations: out.violations,
		Assumptions: []string{
			"the affine reference group law (sim/ref, math/big) is pinned by the self-test (2G, 3G, nG, RFC 6979 / BIP-340 / Wycheproof vectors)",
			"histories are sampled from VERIF_SEED, not enumerated",
			"steps that C03 does not model (scalar multiplication, decoders, hash-to-curve) keep the model in sync by adopting the implementation's validity-checked result",
		}}
	if err := writeEvidence(e.VerifDir, ev); err != nil {
		return 2, harnessErr("evidence: %v", err)
	}
	Logf("%s %s: %d histories, %d steps, %d distinct nontrivial, %d violating runs, %.1fs", prop, e.Tier, a.Runs, a.Ops, len(a.NonTrivial), out.violations, time.Since(e.Start).Seconds())
	return out.exit, nil
}
