package driver

import (
	"encoding/json"
	"fmt"
	"os"
	"path/filepath"
	"sort"
	"strings"
	"time"

	"verif/sim/kernel"
	"verif/sim/replay"
)

// Finding is one entry of known_findings.json.
type Finding struct {
	Status   string `json:"status"` // "known" | "fixed"
	Property string `json:"property"`
	Class    string `json:"class"`
	Key      string `json:"key"`
	What     string `json:"what"`
	Commit   string `json:"commit,omitempty"`
}

func loadFindings(verifDir string) ([]Finding, error) {
	b, err := os.ReadFile(filepath.Join(verifDir, "known_findings.json"))
	if err != nil {
		if os.IsNotExist(err) {
			return nil, nil
		}
		return nil, err
	}
	var f struct {
		Findings []Finding `json:"findings"`
	}
	if err := json.Unmarshal(b, &f); err != nil {
		return nil, err
	}
	return f.Findings, nil
}

func matchFinding(fs []Finding, v kernel.Violation) *Finding {
	for i := range fs {
		f := &fs[i]
		if f.Status == "known" && f.Property == v.Property && f.Class == v.Class && f.Key == v.Key {
			return f
		}
	}
	return nil
}

// Agg aggregates the results of a check.
type Agg struct {
	Runs                   int
	Ops                    int
	Steps                  int
	SimWallUS              int64
	Faults                 map[string]int
	StallMS                int64 // simulated milliseconds covered by the stall world
	Probes                 map[string]int
	Digests                map[string]bool
	Sigs                   map[string]bool
	NonTrivial             map[string]bool // distinct digests of runs in which >= 1 fault fired
	Violating              []*kernel.Result
	Harness                []string
	OtherProps             map[string]int
	FreeRuns               int
	EnumCases              int
	EnumCasesOtherBuilds   int
	EnumTotal              int
	EnumDistinctNontrivial int
	ByWorld                map[string]int
	Variants               map[string]int
}

func newAgg() *Agg {
	return &Agg{Faults: map[string]int{}, Probes: map[string]int{}, Digests: map[string]bool{}, Sigs: map[string]bool{}, NonTrivial: map[string]bool{}, OtherProps: map[string]int{}, ByWorld: map[string]int{}, Variants: map[string]int{}}
}

func (a *Agg) add(prop string, r *kernel.Result) {
	a.Runs++
	a.Ops += r.Ops
	if r.World == "stall" {
		a.StallMS += int64(r.Steps)
	} else {
		a.Steps += r.Steps
	}
	a.SimWallUS += r.WallUS
	a.ByWorld[r.World]++
	a.Variants[r.Variant]++
	nf := 0
	for k, v := range r.Faults {
		a.Faults[k] += v
		nf += v
	}
	for k, v := range r.Probes {
		a.Probes[k] += v
	}
	a.Digests[r.Digest] = true
	if r.Sig != "" {
		a.Sigs[r.Sig] = true
	}
	if nf > 0 && r.Ops > 0 {
		a.NonTrivial[r.Digest] = true
	}
	if r.FreeRun {
		a.FreeRuns++
	}
	if r.World == "signenum" && r.Variant != "asm" {
		// the enumerated layer repeated in another build configuration: its
		// cases are counted apart, so that "enumerated == total" keeps its
		// meaning for the layer itself
		a.EnumCasesOtherBuilds += r.Ops
	} else if r.World == "signenum" {
		a.EnumCases += r.Ops
		if t, ok := r.Cfg["enum_total_cases"].(float64); ok {
			a.EnumTotal = int(t)
		}
		if t, ok := r.Cfg["enum_distinct_nontrivial_cases"].(float64); ok {
			a.EnumDistinctNontrivial += int(t)
		}
	}
	mine := false
	for _, v := range r.Violations {
		switch {
		case v.Property == "HARNESS":
			a.Harness = append(a.Harness, fmt.Sprintf("%s idx=%d: %s: %s", r.World, r.Idx, v.Class, v.Detail))
		case v.Property == prop:
			mine = true
		default:
			a.OtherProps[v.Property]++
		}
	}
	if mine {
		a.Violating = append(a.Violating, r)
	}
}

// Evidence is the evidence file.
type Evidence struct {
	PropertyID  string         `json:"property_id"`
	Tier        string         `json:"tier"`
	Seed        int64          `json:"seed"`
	Level       string         `json:"level"`
	Coverage    map[string]any `json:"coverage"`
	Assumptions []string       `json:"assumptions"`
	WallS       float64        `json:"wall_s"`
	Violations  int            `json:"violations"`
}

func writeEvidence(verifDir string, ev *Evidence) error {
	dir := filepath.Join(verifDir, "evidence")
	// A run against a scratch copy of the repository (seeded-change
	// evaluation) must not overwrite the evidence of /repo itself.
	if r := os.Getenv("VERIF_REPO"); r != "" && r != "/repo" {
		dir = filepath.Join(verifDir, ".work", "evidence-of-scratch-runs")
	}
	if err := os.MkdirAll(dir, 0o755); err != nil {
		return err
	}
	// keep the file readable whatever a world counts: at most 500 counters
	// per map, the rest lumped together
	for _, key := range []string{"reach_probes", "fault_kinds_fired"} {
		if m, ok := ev.Coverage[key].(map[string]int); ok && len(m) > 500 {
			ev.Coverage[key] = capCounters(m, 500)
		}
	}
	b, err := json.MarshalIndent(ev, "", " ")
	if err != nil {
		return err
	}
	return os.WriteFile(filepath.Join(dir, ev.PropertyID+".json"), append(b, '\n'), 0o644)
}

func sortedCounts(m map[string]int) map[string]int { return m } // json sorts map keys

func firstViolation(r *kernel.Result, prop string) kernel.Violation {
	for _, v := range r.Violations {
		if v.Property == prop {
			return v
		}
	}
	return kernel.Violation{}
}

// replayOnce re-executes a tape in a fresh process.
func (e *Env) replayOnce(bin, variant string, rf *replay.File, tape Tape, extraEnv []string, tag string) (*kernel.Result, *Job, error) {
	f := *rf
	f.Tape = tape
	p := filepath.Join(e.WorkDir, fmt.Sprintf("trial-%s.json", tag))
	if err := f.Save(p); err != nil {
		return nil, nil, err
	}
	defer os.Remove(p)
	procs := rf.Procs
	if procs == 0 {
		procs = 1
	}
	if variant == asmCPUOff {
		extraEnv = append(append([]string(nil), extraEnv...), cpuOffEnv...)
	}
	if variant == simrunAsmRaceBuild.Name {
		extraEnv = append(append([]string(nil), extraEnv...), raceBuildEnv...)
	}
	if m := kernel.SystemEntropyFor(rf.World, rf.Idx-rf.Prefix); m != "" {
		extraEnv = append(append([]string(nil), extraEnv...), "VERIF_SYSTEM_ENTROPY="+m)
	}
	j := &Job{Bin: bin, Variant: variant, World: rf.World, Prop: rf.Prop, From: rf.Idx, N: 1, Procs: procs, Extra: []string{"-replay", p}, Env: extraEnv, Timeout: 5 * time.Minute}
	e.runJob(j)
	if j.Err != nil {
		return nil, j, j.Err
	}
	if len(j.Results) != 1 {
		return nil, j, nil
	}
	return j.Results[0], j, nil
}

var trialCounter int64

// minimiseAndReport shrinks a violating run, verifies the replay in a fresh
// process and writes the replay file.  Returns the replay path.
func (e *Env) minimiseAndReport(prop, bin, variant string, r *kernel.Result, v kernel.Violation, budget time.Duration) (string, kernel.Violation, error) {
	rf := &replay.File{Depth: e.Depth, Procs: ProcsFor(r.JobFrom), Property: prop, World: r.World, Prop: r.Prop, Variant: variant, VerifSeed: r.VerifSeed, Idx: r.Idx, Violation: v, Cfg: r.Cfg, Tape: r.Tape, Trace: r.Trace}
	if rf.Tape == nil {
		return "", v, harnessErr("violating run carries no tape")
	}
	var ctr int
	var mu = make(chan struct{}, 1)
	mu <- struct{}{}
	trial := func(t Tape) (bool, Tape) {
		<-mu
		ctr++
		tag := fmt.Sprintf("%d", ctr)
		mu <- struct{}{}
		res, _, err := e.replayOnce(bin, variant, rf, t, nil, tag)
		if err != nil || res == nil {
			return false, nil
		}
		for _, x := range res.Violations {
			if x.Property == v.Property && x.Class == v.Class {
				return true, res.Tape
			}
		}
		return false, nil
	}
	// The unminimised tape must reproduce first: alone in a fresh process,
	// or - when the violation depends on what the process did before (a warm
	// pool or cache, a lazily built table) - after the runs that preceded it
	// in its job.  A few attempts each: a changed library may contain
	// nondeterminism of its own (sync.Pool and the garbage collector).
	var ok bool
	var canon Tape
	prefixes := []int{0}
	if r.Idx > r.JobFrom {
		prefixes = append(prefixes, r.Idx-r.JobFrom)
	}
attempts:
	for _, pf := range prefixes {
		rf.Prefix = pf
		for try := 0; try < 3; try++ {
			if ok, canon = trial(rf.Tape); ok {
				break attempts
			}
		}
	}
	if !ok {
		// Observed during the batch, not reproducible from its own tape.  The
		// determinism self-test (./check --selftest) shows that on the
		// unchanged tree a run is a pure function of its tape, so this points
		// at nondeterminism inside the library under test; the observation is
		// reported with what the batch recorded, marked as not reproduced.
		f := false
		rf.Prefix, rf.Reproduced = 0, &f
		rf.Note = fmt.Sprintf("observed in run %s#%d of the batch (job from %d) but not reproduced in %d fresh-process replays (alone and after the job's earlier runs): the behaviour depends on something outside the tape (e.g. sync.Pool / garbage-collector timing inside the library)", r.World, r.Idx, r.JobFrom, 3*len(prefixes))
		dir := filepath.Join(e.VerifDir, "replays")
		_ = os.MkdirAll(dir, 0o755)
		path := filepath.Join(dir, fmt.Sprintf("%s-seed%d-%s-%d.json", prop, e.Seed, r.World, r.Idx))
		if err := rf.Save(path); err != nil {
			return "", v, harnessErr("write replay: %v", err)
		}
		Logf("violation %s/%s of run %s#%d did not reproduce from its own tape; reported as observed", v.Property, v.Class, r.World, r.Idx)
		return path, v, nil
	}
	if rf.Prefix > 0 {
		Logf("violation %s/%s of run %s#%d reproduces only after the %d runs that preceded it in its process", v.Property, v.Class, r.World, r.Idx, rf.Prefix)
	}
	small, trials, acc := Shrink(canon, trial, budget, e.Workers)
	Logf("minimised: %d trials, %d accepted", trials, acc)
	res, _, err := e.replayOnce(bin, variant, rf, small, nil, "final")
	final := rf
	if err == nil && res != nil {
		for _, x := range res.Violations {
			if x.Property == v.Property && x.Class == v.Class {
				n0, _ := tapeSize(canon)
				n1, _ := tapeSize(small)
				final = &replay.File{Depth: e.Depth, Procs: rf.Procs, Property: prop, World: r.World, Prop: r.Prop, Variant: variant, VerifSeed: r.VerifSeed, Idx: r.Idx, Prefix: rf.Prefix, Minimised: true, Violation: x, Cfg: res.Cfg, Tape: res.Tape, Trace: res.Trace,
					Note: fmt.Sprintf("minimised from %d to %d recorded choices in %d trials; replay with: ./check --replay <this file>", n0, n1, trials)}
				v = x
			}
		}
	}
	dir := filepath.Join(e.VerifDir, "replays")
	_ = os.MkdirAll(dir, 0o755)
	path := filepath.Join(dir, fmt.Sprintf("%s-seed%d-%s-%d.json", prop, e.Seed, r.World, r.Idx))
	if err := final.Save(path); err != nil {
		return "", v, harnessErr("write replay: %v", err)
	}
	return path, v, nil
}

// summarise prints the outcome and decides the exit code.
type outcome struct {
	exit       int
	violations int
}

func (e *Env) conclude(prop string, a *Agg, binFor func(r *kernel.Result) (string, string), shrinkBudget time.Duration) (outcome, error) {
	if len(a.Harness) > 0 {
		return outcome{}, harnessErr("harness failures:\n  %s", strings.Join(a.Harness, "\n  "))
	}
	findings, err := loadFindings(e.VerifDir)
	if err != nil {
		return outcome{}, harnessErr("known_findings.json: %v", err)
	}
	out := outcome{}
	// group violating runs by (class,key); report each group once
	type grp struct {
		v    kernel.Violation
		runs []*kernel.Result
	}
	groups := map[string]*grp{}
	var order []string
	sort.Slice(a.Violating, func(i, j int) bool {
		if a.Violating[i].World != a.Violating[j].World {
			return a.Violating[i].World < a.Violating[j].World
		}
		return a.Violating[i].Idx < a.Violating[j].Idx
	})
	for _, r := range a.Violating {
		for _, v := range r.Violations {
			if v.Property != prop {
				continue
			}
			k := v.Class + "|" + v.Key
			if groups[k] == nil {
				groups[k] = &grp{v: v}
				order = append(order, k)
			}
			if n := len(groups[k].runs); n == 0 || groups[k].runs[n-1] != r {
				groups[k].runs = append(groups[k].runs, r)
			}
		}
	}
	reported := 0
	shrinkDeadline := time.Now().Add(shrinkBudget)
	for _, k := range order {
		g := groups[k]
		if f := matchFinding(findings, g.v); f != nil {
			fmt.Printf("KNOWN-FINDING: property=%s %s [%s/%s] (%d runs)\n", prop, f.What, f.Class, f.Key, len(g.runs))
			continue
		}
		out.violations += len(g.runs)
		if reported >= 3 {
			continue // minimise at most three distinct classes per check
		}
		reported++
		r := g.runs[0]
		bin, variant := binFor(r)
		left := time.Until(shrinkDeadline)
		if left < 5*time.Second {
			left = 5 * time.Second
		}
		path, v, err := e.minimiseAndReport(prop, bin, variant, r, g.v, left/time.Duration(4-reported))
		if err != nil {
			return out, err
		}
		fmt.Printf("VIOLATION property=%s replay=%s\n", prop, path)
		fmt.Printf("  class=%s key=%s world=%s run=%d seed=%d\n  %s\n", v.Class, v.Key, r.World, r.Idx, e.Seed, strings.ReplaceAll(v.Detail, "\n", "\n  "))
		out.exit = 1
	}
	return out, nil
}

// capCounters keeps the n largest counters and lumps the others together.
func capCounters(m map[string]int, n int) map[string]int {
	keys := make([]string, 0, len(m))
	for k := range m {
		keys = append(keys, k)
	}
	sort.Slice(keys, func(i, j int) bool {
		if m[keys[i]] != m[keys[j]] {
			return m[keys[i]] > m[keys[j]]
		}
		return keys[i] < keys[j]
	})
	out := make(map[string]int, n+1)
	rest, restKeys := 0, 0
	for i, k := range keys {
		if i < n {
			out[k] = m[k]
		} else {
			rest += m[k]
			restKeys++
		}
	}
	out[fmt.Sprintf("(%d further counters)", restKeys)] = rest
	return out
}
