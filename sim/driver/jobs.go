package driver

import (
	"bufio"
	"bytes"
	"encoding/json"
	"fmt"
	"os"
	"os/exec"
	"path/filepath"
	"sync"
	"time"

	"verif/sim/kernel"
)

// Job is one simrun/simconc process over a range of run indices.
type Job struct {
	Bin     string
	Variant string
	World   string
	Prop    string
	From, N int
	Extra   []string
	Env     []string
	Timeout time.Duration
	Procs   int // GOMAXPROCS of the process (0: derived from From)

	// outputs
	Results  []*kernel.Result
	ExitCode int
	Stderr   string
	RaceLog  string
	Err      error
	Wall     time.Duration
}

// runJob executes one job and parses its JSON lines.
func (e *Env) runJob(j *Job) {
	args := []string{"-world", j.World, "-prop", j.Prop, "-variant", j.Variant, "-seed", fmt.Sprint(e.Seed), "-from", fmt.Sprint(j.From), "-n", fmt.Sprint(j.N)}
	args = append(args, "-noselftest")
	args = append(args, j.Extra...)
	var stallEnv []string
	if j.World == "stall" {
		// a test binary (testing/synctest): parameters go in the environment
		stallEnv = []string{"VERIF_STALL=1", "VERIF_STALL_PROP=" + j.Prop, fmt.Sprintf("VERIF_STALL_SEED=%d", e.Seed), fmt.Sprintf("VERIF_STALL_FROM=%d", j.From), fmt.Sprintf("VERIF_STALL_N=%d", j.N)}
		for i, x := range j.Extra {
			if x == "-replay" && i+1 < len(j.Extra) {
				stallEnv = append(stallEnv, "VERIF_STALL_REPLAY="+j.Extra[i+1])
			}
			if x == "-tape" {
				stallEnv = append(stallEnv, "VERIF_STALL_FULL=1")
			}
		}
		args = []string{"-test.run", "^TestStallWorld$", "-test.count=1", "-test.timeout=20m"}
	}
	cmd := exec.Command(j.Bin, args...)
	cmd.Dir = e.WorkDir
	// One P per simulation process: every world is single-threaded or
	// serialised by the scheduler, and with one P the per-P caches of
	// sync.Pool (which a changed library might introduce) behave the same in
	// every process.  The workers give the parallelism.
	// The number of Ps is a configuration knob of the process (a changed
	// library may size worker pools or split tables by it): mostly 1, so
	// that per-P caches behave identically everywhere, sometimes 2 or 6.
	// Every world is single-threaded or serialised, so the unchanged
	// library gives the same histories whatever the value.
	procs := j.Procs
	if procs == 0 {
		procs = ProcsFor(j.From)
	}
	cmd.Env = append(append(os.Environ(), fmt.Sprintf("GOMAXPROCS=%d", procs), fmt.Sprintf("VERIF_DEPTH=%d", e.Depth)), append(stallEnv, j.Env...)...)
	// the system entropy source as a fault of the process (pool world);
	// replays say themselves which process they re-enact
	isReplay := false
	for _, x := range j.Extra {
		if x == "-replay" {
			isReplay = true
		}
	}
	if !isReplay {
		if m := kernel.SystemEntropyFor(j.World, j.From); m != "" {
			cmd.Env = append(cmd.Env, "VERIF_SYSTEM_ENTROPY="+m)
		}
	}
	var stdout, stderr bytes.Buffer
	cmd.Stdout, cmd.Stderr = &stdout, &stderr
	t0 := time.Now()
	timeout := j.Timeout
	if timeout == 0 {
		timeout = 30 * time.Minute
	}
	if err := cmd.Start(); err != nil {
		j.Err = err
		return
	}
	done := make(chan error, 1)
	go func() { done <- cmd.Wait() }()
	select {
	case err := <-done:
		if err != nil {
			if ee, ok := err.(*exec.ExitError); ok {
				j.ExitCode = ee.ExitCode()
			} else {
				j.Err = err
			}
		}
	case <-time.After(timeout):
		_ = cmd.Process.Kill()
		<-done
		j.Err = fmt.Errorf("timeout after %v", timeout)
	}
	j.Wall = time.Since(t0)
	j.Stderr = stderr.String()
	sc := bufio.NewScanner(&stdout)
	sc.Buffer(make([]byte, 1<<20), 1<<28)
	for sc.Scan() {
		line := sc.Bytes()
		if len(line) == 0 || line[0] != '{' || bytes.HasPrefix(line, []byte(`{"start"`)) {
			continue
		}
		var r kernel.Result
		if err := json.Unmarshal(line, &r); err != nil {
			j.Err = fmt.Errorf("bad JSON line from %s: %v", filepath.Base(j.Bin), err)
			return
		}
		j.Results = append(j.Results, &r)
	}
}

// ProcsFor is the GOMAXPROCS value of the process that executes the job
// starting at run index from.
func ProcsFor(from int) int { return []int{1, 1, 2, 6}[(from/7)%4] }

// RunJobs runs all jobs on e.Workers workers.
func (e *Env) RunJobs(jobs []*Job) {
	var wg sync.WaitGroup
	ch := make(chan *Job)
	for i := 0; i < e.Workers; i++ {
		wg.Add(1)
		go func() {
			defer wg.Done()
			for j := range ch {
				e.runJob(j)
			}
		}()
	}
	for _, j := range jobs {
		ch <- j
	}
	close(ch)
	wg.Wait()
}

// SplitRuns cuts [0,total) into jobs of `per` runs.
func SplitRuns(bin, variant, world, prop string, from, total, per int, extra ...string) []*Job {
	var jobs []*Job
	for off := 0; off < total; off += per {
		n := per
		if off+n > total {
			n = total - off
		}
		jobs = append(jobs, &Job{Bin: bin, Variant: variant, World: world, Prop: prop, From: from + off, N: n, Extra: extra})
	}
	return jobs
}
