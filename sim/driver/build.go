// Package driver orchestrates a check: build from the current tree, fan out
// simulated runs over all cores, aggregate, minimise, write evidence.
package driver

import (
	"bytes"
	"fmt"
	"os"
	"os/exec"
	"path/filepath"
	"strings"
	"sync"
	"time"
)

// Env is the environment of one driver invocation.
type Env struct {
	VerifDir string
	RepoDir  string
	WorkDir  string
	Seed     uint64
	Tier     string
	Workers  int
	Depth    int // bound-scaling factor passed to the simulation processes (VERIF_DEPTH)
	Start    time.Time

	staleCanaryNote string // outcome of the long-stall race canary (evidence)

	mu      sync.Mutex
	built   map[string]string
	modfile string
}

// HarnessError is a failure of the machinery itself (exit 2).
type HarnessError struct{ Msg string }

func (e *HarnessError) Error() string { return e.Msg }

func harnessErr(format string, args ...any) error {
	return &HarnessError{fmt.Sprintf(format, args...)}
}

func goEnv() []string {
	env := os.Environ()
	env = append(env, "GOFLAGS=-mod=mod", "GOPROXY=off", "GOSUMDB=off", "GOTOOLCHAIN=local", "GONOSUMDB=*", "GONOSUMCHECK=1")
	return env
}

// Logf prints progress to stderr.
func Logf(format string, args ...any) {
	fmt.Fprintf(os.Stderr, "[verif] "+format+"\n", args...)
}

// prepareModfile writes a go.mod whose replace points at RepoDir.
func (e *Env) prepareModfile() (string, error) {
	e.mu.Lock()
	defer e.mu.Unlock()
	if e.modfile != "" {
		return e.modfile, nil
	}
	src, err := os.ReadFile(filepath.Join(e.VerifDir, "go.mod"))
	if err != nil {
		return "", harnessErr("read go.mod: %v", err)
	}
	s := strings.Replace(string(src), "=> /repo", "=> "+e.RepoDir, 1)
	mf := filepath.Join(e.WorkDir, "go.mod")
	if err := os.WriteFile(mf, []byte(s), 0o644); err != nil {
		return "", harnessErr("write modfile: %v", err)
	}
	sum, err := os.ReadFile(filepath.Join(e.RepoDir, "go.sum"))
	if err != nil {
		sum, _ = os.ReadFile(filepath.Join(e.VerifDir, "go.sum"))
	}
	if err := os.WriteFile(filepath.Join(e.WorkDir, "go.sum"), sum, 0o644); err != nil {
		return "", harnessErr("write go.sum: %v", err)
	}
	e.modfile = mf
	return mf, nil
}

// Variant describes one way of building a simulation binary.
type Variant struct {
	Name    string // asm | purego | asm-race | purego-race
	Pkg     string // ./cmd/simrun | ./cmd/simconc
	Tags    string
	Race    bool
	Overlay string   // path to overlay.json ("" = none)
	Env     []string // extra environment of the build (GOAMD64=v3)
	Go      string   // go command ("" = go)
	TestBin bool     // build a test binary (go test -c): the stall world needs testing/synctest
}

// Build builds (once) the binary for a variant from the current tree.
func (e *Env) Build(v Variant) (string, error) {
	key := v.Pkg + "|" + v.Name
	e.mu.Lock()
	if p, ok := e.built[key]; ok {
		e.mu.Unlock()
		return p, nil
	}
	e.mu.Unlock()
	mf, err := e.prepareModfile()
	if err != nil {
		return "", err
	}
	out := filepath.Join(e.WorkDir, "bin", filepath.Base(v.Pkg)+"-"+v.Name)
	args := []string{"build", "-modfile=" + mf, "-tags", v.Tags, "-o", out}
	if v.TestBin {
		args = []string{"test", "-c", "-modfile=" + mf, "-tags", v.Tags, "-o", out}
	}
	if v.Race {
		args = append(args, "-race")
	}
	if v.Overlay != "" {
		args = append(args, "-overlay", v.Overlay)
	}
	args = append(args, v.Pkg)
	t0 := time.Now()
	gocmd := "go"
	if v.Go != "" {
		gocmd = v.Go
	}
	cmd := exec.Command(gocmd, args...)
	cmd.Dir = e.VerifDir
	cmd.Env = append(goEnv(), v.Env...)
	var buf bytes.Buffer
	cmd.Stdout, cmd.Stderr = &buf, &buf
	if err := cmd.Run(); err != nil {
		return "", harnessErr("build of %s (%s) from %s failed:\n%s", v.Pkg, v.Name, e.RepoDir, buf.String())
	}
	Logf("built %s [%s] in %.1fs", v.Pkg, v.Name, time.Since(t0).Seconds())
	e.mu.Lock()
	e.built[key] = out
	e.mu.Unlock()
	return out, nil
}

// RefSelfTest runs the reference-model self-test once per check (exit 2 on
// failure: a wrong model must never produce a VIOLATION).
func (e *Env) RefSelfTest(bin string) error {
	cmd := exec.Command(bin, "-selftest")
	cmd.Dir = e.WorkDir
	var buf bytes.Buffer
	cmd.Stdout, cmd.Stderr = &buf, &buf
	if err := cmd.Run(); err != nil {
		return harnessErr("reference-model self-test failed: %v\n%s", err, buf.String())
	}
	return nil
}

// NewEnv prepares the work directory.
func NewEnv(verifDir, tier string, seed uint64) (*Env, error) {
	repo := os.Getenv("VERIF_REPO")
	if repo == "" {
		repo = "/repo"
	}
	work := filepath.Join(verifDir, ".work", fmt.Sprintf("%d-%d", os.Getpid(), time.Now().UnixNano()))
	if err := os.MkdirAll(filepath.Join(work, "bin"), 0o755); err != nil {
		return nil, harnessErr("mkdir work: %v", err)
	}
	workers := 16
	if n := os.Getenv("VERIF_WORKERS"); n != "" {
		fmt.Sscanf(n, "%d", &workers)
	}
	depth := 1
	if tier == "thorough" {
		depth = 2
	}
	return &Env{VerifDir: verifDir, RepoDir: repo, WorkDir: work, Seed: seed, Tier: tier, Workers: workers, Depth: depth, Start: time.Now(), built: map[string]string{}}, nil
}

// Cleanup removes the work directory.
func (e *Env) Cleanup() { os.RemoveAll(e.WorkDir) }
