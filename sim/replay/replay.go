// Package replay defines the replay-file format: everything needed to
// re-execute one simulated run exactly, plus what was observed.
package replay

import (
	"encoding/json"
	"os"

	"verif/sim/kernel"
)

// File is a replay file.
type File struct {
	Property  string                     `json:"property"`
	World     string                     `json:"world"`
	Prop      string                     `json:"workload_prop"`
	Variant   string                     `json:"variant"`
	VerifSeed uint64                     `json:"verif_seed"`
	Idx       int                        `json:"run_index"`
	Minimised bool                       `json:"minimised"`
	Violation kernel.Violation           `json:"violation"`
	Cfg       map[string]any             `json:"cfg,omitempty"`
	Tape      map[string][]kernel.Choice `json:"tape"`
	Trace     []string                   `json:"trace,omitempty"`
	RaceLog   string                     `json:"race_report,omitempty"`
	Note      string                     `json:"note,omitempty"`
	// Prefix > 0: the violation depends on state the process accumulated in
	// earlier runs (a warm cache, a pool, a lazily built table): before the
	// recorded tape is replayed, the Prefix runs that preceded it in its job
	// (run indices Idx-Prefix .. Idx-1, regenerated from VerifSeed) are
	// executed in the same process.
	Prefix int `json:"prefix_runs,omitempty"`
	// Procs is the GOMAXPROCS value of the process that observed the
	// violation (a configuration knob; 0 in old files: 1).
	Procs int `json:"gomaxprocs,omitempty"`
	// Depth is the bound-scaling factor (kernel.Depth) the run was made with.
	Depth int `json:"depth,omitempty"`
	// Reproduced is false when the violation was observed during the batch
	// but could not be reproduced from this file in fresh processes.
	Reproduced *bool `json:"reproduced,omitempty"`
}

// Load reads a replay file.
func Load(path string) (*File, error) {
	b, err := os.ReadFile(path)
	if err != nil {
		return nil, err
	}
	var f File
	if err := json.Unmarshal(b, &f); err != nil {
		return nil, err
	}
	return &f, nil
}

// Save writes a replay file.
func (f *File) Save(path string) error {
	b, err := json.MarshalIndent(f, "", " ")
	if err != nil {
		return err
	}
	return os.WriteFile(path, b, 0o644)
}
