package kernel

import (
	"bytes"
	"errors"
	"io"
	"testing"
)

// Tests of the simulation kernel itself (go test ./sim/kernel).

func TestTapeReplayReturnsRecordedValues(t *testing.T) {
	g := NewTape(42)
	var want []int
	for i := 0; i < 50; i++ {
		want = append(want, g.Choose("a", "x", 7), g.Choose("b", "y", 1000))
	}
	wantBytes := g.Bytes("a", "blob", 33)
	rec := g.Record()

	r := NewReplayTape(42, rec)
	for i := 0; i < 50; i++ {
		if got := r.Choose("a", "x", 7); got != want[2*i] {
			t.Fatalf("stream a draw %d: got %d want %d", i, got, want[2*i])
		}
		if got := r.Choose("b", "y", 1000); got != want[2*i+1] {
			t.Fatalf("stream b draw %d: got %d want %d", i, got, want[2*i+1])
		}
	}
	if got := r.Bytes("a", "blob", 33); !bytes.Equal(got, wantBytes) {
		t.Fatalf("Bytes not reproduced")
	}
	// an exhausted or missing stream yields the simplest alternative
	if r.Choose("a", "x", 7) != 0 || r.Choose("nosuchstream", "z", 9) != 0 {
		t.Fatalf("exhausted/missing stream must yield 0")
	}
	// the same seed gives the same tape; streams are independent of each other
	g2 := NewTape(42)
	_ = g2.Choose("b", "y", 1000) // touch b first this time
	if g2.Choose("a", "x", 7) != want[0] {
		t.Fatalf("streams are not independent")
	}
}

func TestTapeReplayClampsOutOfRangeValues(t *testing.T) {
	r := NewReplayTape(1, map[string][]Choice{"s": {{Label: "k", N: 100, V: 57}}})
	if got := r.Choose("s", "k", 10); got != 9 {
		t.Fatalf("value 57 replayed into 10 alternatives: got %d, want clamp to 9", got)
	}
}

func readAll(d *Device, sizes ...int) (total int, err error) {
	for _, n := range sizes {
		var k int
		k, err = d.Read(make([]byte, n))
		total += k
		if err != nil {
			return
		}
	}
	return
}

func TestDeviceFaults(t *testing.T) {
	// healthy, chunked with a zero-length read: io.ReadFull completes it
	d := NewDevice(DevCfg{Payload: PayCounter, ErrAt: -1, Chunks: []int{7, 0, 11}})
	buf := make([]byte, 32)
	if n, err := io.ReadFull(d, buf); n != 32 || err != nil {
		t.Fatalf("ReadFull over a chunked device: n=%d err=%v", n, err)
	}
	for i, b := range buf {
		if b != byte(i) {
			t.Fatalf("counter payload wrong at %d", i)
		}
	}
	if d.Delivered != 32 || len(d.Log) < 4 {
		t.Fatalf("log/delivered wrong: %d %d", d.Delivered, len(d.Log))
	}
	// error after exactly j bytes, delivered alone
	for j := 0; j <= 32; j++ {
		d := NewDevice(DevCfg{Payload: PayPRNG, Seed: 9, ErrAt: j, ErrKind: ErrCustom})
		n, err := io.ReadFull(d, make([]byte, 40))
		if n != j || err == nil {
			t.Fatalf("err@%d: n=%d err=%v", j, n, err)
		}
		if d.Delivered != j {
			t.Fatalf("err@%d: delivered %d", j, d.Delivered)
		}
	}
	// error together with the last partial chunk (n > 0, err != nil)
	d = NewDevice(DevCfg{Payload: PayConst, Const: 0xab, ErrAt: 5, ErrKind: ErrEOF, ErrWithData: true})
	n, err := d.Read(make([]byte, 16))
	if n != 5 || !errors.Is(err, io.EOF) {
		t.Fatalf("n>0 with error: n=%d err=%v", n, err)
	}
	// the transient error announces itself as such and keeps coming back
	d = NewDevice(DevCfg{Payload: PayPRNG, ErrAt: 0, ErrKind: ErrTemporary})
	for i := 0; i < 3; i++ {
		_, err := d.Read(make([]byte, 8))
		te, ok := err.(interface{ Temporary() bool })
		if !ok || !te.Temporary() {
			t.Fatalf("read %d: want a Temporary() error, got %v", i, err)
		}
	}
	// scripted payload, then PRNG
	d = NewDevice(DevCfg{Payload: PayScripted, Script: []byte{1, 2, 3}, ErrAt: -1})
	b := make([]byte, 3)
	if _, err := io.ReadFull(d, b); err != nil || !bytes.Equal(b, []byte{1, 2, 3}) {
		t.Fatalf("scripted payload: %v %v", b, err)
	}
}

func TestSchedulerSerialisesAndIsDeterministic(t *testing.T) {
	run := func() (string, []int) {
		tp := NewTape(7)
		cfg := DrawSchedCfg(tp, 3, 3000, 1000)
		s := NewSched(tp, cfg, 8)
		var order []int
		running := 0
		for i := 0; i < 3; i++ {
			i := i
			s.Go(func(tk *Task) {
				for k := 0; k < 1000; k++ {
					running++
					if running != 1 {
						panic("two tasks ran at the same time")
					}
					order = append(order, i)
					running--
					s.Yield(uint32(1 + k%7))
				}
			})
		}
		s.Run()
		return s.Sig(), order
	}
	sig1, o1 := run()
	sig2, o2 := run()
	if sig1 != sig2 || len(o1) != 3000 || len(o1) != len(o2) {
		t.Fatalf("schedule not reproducible: %s %s %d %d", sig1, sig2, len(o1), len(o2))
	}
	for i := range o1 {
		if o1[i] != o2[i] {
			t.Fatalf("interleaving differs at step %d", i)
		}
	}
}

func TestPanicOrigin(t *testing.T) {
	lib := "goroutine 1 [running]:\nruntime/debug.Stack()\n\t/usr/local/go/src/runtime/debug/stack.go:26 +0x5e\nmain.runWorld.func1.1()\n\t/verif/cmd/simrun/main.go:73 +0x3a\npanic({0x6a2a40?, 0x8f5a10?})\n\t/usr/local/go/src/runtime/panic.go:785 +0x132\nruntime.panicmem(...)\n\t/usr/local/go/src/runtime/panic.go:262\nruntime.sigpanic()\n\t/usr/local/go/src/runtime/signal_unix.go:917 +0x359\ngitlab.com/yawning/secp256k1-voi.(*Point).ScalarBaseMult(0xc000012345, 0x0)\n\t/repo/point_mul.go:100 +0x20\nverif/sim/worlds/sign.Run(...)\n"
	if fn, in := PanicOrigin(lib); !in || fn != "gitlab.com/yawning/secp256k1-voi.(*Point).ScalarBaseMult" {
		t.Fatalf("library origin: %q %v", fn, in)
	}
	own := "goroutine 1 [running]:\npanic({0x1, 0x2})\n\t/usr/local/go/src/runtime/panic.go:785 +0x132\nverif/sim/worlds/sign.Run(0x1)\n\t/verif/sim/worlds/sign/sign.go:10 +0x1\n"
	if fn, in := PanicOrigin(own); in || fn != "verif/sim/worlds/sign.Run" {
		t.Fatalf("harness origin: %q %v", fn, in)
	}
	if _, in := PanicOrigin("no panic here"); in {
		t.Fatal("no panic frame")
	}
}
