//go:build !race

package kernel

// RaceBuild reports whether the race detector is compiled in.
const RaceBuild = false

func raceDisable() {}
func raceEnable()  {}
