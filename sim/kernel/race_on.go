//go:build race

package kernel

import "runtime"

// RaceBuild reports whether the race detector is compiled in.
const RaceBuild = true

func raceDisable() { runtime.RaceDisable() }
func raceEnable()  { runtime.RaceEnable() }
