package kernel

import (
	"os"
	"strconv"
)

// Depth scales the bounds of every world (history length, number of tasks
// and operations).  1 in the quick tier, 2 in the thorough tier; it comes
// from the environment variable VERIF_DEPTH, is recorded in every result and
// replay file, and the driver sets it again when a file is replayed.
var Depth = func() int {
	if n, err := strconv.Atoi(os.Getenv("VERIF_DEPTH")); err == nil && n >= 1 && n <= 4 {
		return n
	}
	return 1
}()
