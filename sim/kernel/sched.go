package kernel

import (
	"fmt"
	"hash/fnv"
	"runtime"
	"strconv"
	"strings"
	"sync"
	"sync/atomic"
	"time"
)

// The serialising scheduler.  Tasks are real goroutines; exactly one is
// released at a time and runs until a yield point whose countdown has
// expired.  Every decision (who runs next, for how many yield points, GC or
// not) is a tape draw made on the scheduler goroutine.
//
// Every hand-off is bracketed by runtime.RaceDisable/RaceEnable so that the
// race detector does not see the scheduler's channel operations as
// happens-before edges: to ThreadSanitizer the tasks are N goroutines with
// no synchronisation between them (the correct model of N independent
// callers), while the execution is in fact serial and decided by the tape.
// The harness functions that run on task goroutines are //go:norace.

// Preemption policies.
const (
	PolUniform = iota // uniform quantum in [1, 2*mean]
	PolPCT            // priority schedule with d change points
	PolRR             // fixed quantum round robin
	PolRTC            // run to completion: switch at operation boundaries only
	PolStall          // one victim is starved until the others are done (then uniform)
	NumPolicies
)

// PolicyNames names the policies.
var PolicyNames = [...]string{"uniform", "pct", "round-robin", "run-to-completion", "stall-one"}

const (
	evYield = iota
	evOpDone
	evDone
	evBlocked // the task found a lock taken (cooperative Lock, see cmd/instrument)
)

// Task is one simulated caller.
type Task struct {
	ID      int
	Steps   uint64 // yield points passed by this task
	OpSteps []uint64
	opStart uint64
	Panic   string
	fn      func(t *Task)
	wake    chan struct{}
	done    bool
	started bool
	prio    int
	goid    uint64 // id of the goroutine that runs the task
	// BlockedSite is the lock site at which the task last found a lock taken
	BlockedSite uint32
	// sleepUntil: the task is stalled until the global step counter reaches
	// this value (a caller that is descheduled for a long time right after a
	// synchronisation point - the "slow node" at an arbitrary instant)
	sleepUntil uint64
	// blockedAt is the value of Sched.progress when the task last found a
	// lock taken; it is not scheduled again before somebody else has run.
	blockedAt int64
}

// SchedCfg is drawn from the tape per run (swarm style).
type SchedCfg struct {
	Policy   int    `json:"policy"`
	Mean     int    `json:"mean_quantum"`
	PCTDepth int    `json:"pct_depth,omitempty"`
	EstSteps uint64 `json:"est_steps,omitempty"`
	Victim   int    `json:"stall_victim,omitempty"`
	GCEvery  int    `json:"gc_one_in,omitempty"` // 0 = never
	// SyncEvery > 0: a switch is forced at one of the next SyncEvery
	// synchronisation points after every hand-off
	SyncEvery int    `json:"sync_one_in,omitempty"`
	MaxSteps  uint64 `json:"max_steps"`
}

// Sched is the scheduler of one run.
type Sched struct {
	T     *Tape
	Cfg   SchedCfg
	Tasks []*Task

	cur       *Task
	back      chan int
	countdown int64
	lastSite  uint32
	free      uint32 // atomic: free-run fallback active
	wg        sync.WaitGroup

	Steps           uint64
	Switches        int
	GCs             int
	Stalled         uint64 // steps executed while the victim was starved
	FreeRun         bool
	Deadlock        bool
	StepCapHit      bool
	SiteHits        []uint32 // per-site hit counts (index = site id)
	PreemptAt       map[uint32]int
	Pairs           map[uint64]struct{}
	sig             uint64
	changeAt        []uint64
	rrNext          int
	Watchdog        time.Duration
	progress        int64 // hand-offs that were not "lock taken"
	freeRunDeadline time.Duration
	syncSwitch      bool  // the hand-off in progress was forced at a synchronisation point
	Naps            int   // long stalls imposed right after a synchronisation point
	syncCountdown   int64 // synchronisation points until a forced switch (-1: never)
	SyncPoints      int   // synchronisation points passed
	SyncSwitches    int   // context switches forced at synchronisation points
	LockWaits       int   // times a task found a lock taken and was descheduled
	Foreign         int   // hand-off points reached by goroutines that are not simulation tasks
	allBlocked      int
}

// NewSched creates a scheduler; nSites sizes the coverage table.
func NewSched(t *Tape, cfg SchedCfg, nSites int) *Sched {
	return &Sched{T: t, Cfg: cfg, back: make(chan int), SiteHits: make([]uint32, nSites+1), PreemptAt: map[uint32]int{}, Pairs: map[uint64]struct{}{}, Watchdog: 2 * time.Second}
}

// DrawSchedCfg draws a scheduling configuration.
func DrawSchedCfg(t *Tape, nTasks int, estSteps uint64, typicalOp int) SchedCfg {
	// the livelock cap is relative to the expected length of the run (a run
	// of 36 batch multiplications legitimately passes 20 million yield points)
	c := SchedCfg{MaxSteps: 10*estSteps + 5_000_000}
	c.Policy = t.Choose("cfg", "policy", NumPolicies)
	// mean quantum: from twice the typical operation down to 1/1024 of it
	c.Mean = (2 * typicalOp) >> uint(t.Choose("cfg", "quantum_log2", 12))
	// at most about 40 000 hand-offs per run (a hand-off costs microseconds)
	if lo := int(estSteps / 40000); c.Mean < lo {
		c.Mean = lo
	}
	if c.Mean < 1 {
		c.Mean = 1
	}
	c.PCTDepth = 1 + t.Choose("cfg", "pct_depth", 3)
	c.EstSteps = estSteps
	c.Victim = t.Choose("cfg", "victim", nTasks)
	if t.Chance("cfg", "syncpre", 3, 4) {
		c.SyncEvery = []int{1, 2, 4}[t.Choose("cfg", "sync_every", 3)]
	}
	if t.Chance("cfg", "gc", 1, 4) {
		c.GCEvery = 1 + t.Choose("cfg", "gc_every", 16)
	}
	return c
}

// Go registers a task.
func (s *Sched) Go(fn func(t *Task)) *Task {
	t := &Task{ID: len(s.Tasks), fn: fn, wake: make(chan struct{}, 1)}
	s.Tasks = append(s.Tasks, t)
	return t
}

// Yield is the yield-point hook (runs on task goroutines).
//
//go:norace
//go:noinline
func (s *Sched) Yield(site uint32) {
	if atomic.LoadUint32(&s.free) != 0 {
		return
	}
	t := s.cur
	if t == nil {
		return
	}
	s.Steps++
	t.Steps++
	if int(site) < len(s.SiteHits) {
		s.SiteHits[site]++
	}
	s.countdown--
	if s.countdown > 0 && s.Steps < s.Cfg.MaxSteps {
		return
	}
	// A goroutine the library started itself (a changed library may
	// parallelise an operation) also passes yield points, but it is not a
	// simulation task: it must never be parked in the task's place.  The
	// check costs a stack header parse, so it is made only here, where a
	// hand-off is about to happen.
	if curGoid() != t.goid {
		s.Foreign++
		return
	}
	s.lastSite = site
	s.handoff(t, evYield)
}

// goroutineBusy reports whether goroutine id is running or runnable (as
// opposed to waiting on something) according to a full stack dump.
//
//go:norace
func goroutineBusy(id uint64) bool {
	buf := make([]byte, 1<<20)
	n := runtime.Stack(buf, true)
	dump := string(buf[:n])
	// no fmt here: this runs while the race detector's view of
	// synchronisation is switched off, and fmt recycles printers through a
	// sync.Pool
	head := "goroutine " + strconv.FormatUint(id, 10) + " ["
	i := strings.Index(dump, head)
	if i < 0 {
		return false
	}
	rest := dump[i+len(head):]
	j := strings.IndexAny(rest, "],")
	if j < 0 {
		return false
	}
	switch rest[:j] {
	case "running", "runnable":
		return true
	}
	return false
}

// curGoid returns the id of the calling goroutine.
//
//go:norace
func curGoid() uint64 {
	var buf [40]byte
	n := runtime.Stack(buf[:], false)
	// "goroutine 123 ["
	var id uint64
	for _, c := range buf[len("goroutine "):n] {
		if c < '0' || c > '9' {
			break
		}
		id = id*10 + uint64(c-'0')
	}
	return id
}

// SyncPoint is the hook of synchronisation points (just before a lock is
// taken, just after one is released).  A context switch there is forced
// after a tape-decided number of such points, independently of the quantum:
// the window between two lock operations is a handful of statements wide and
// uniform preemption almost never lands in it.
//
//go:norace
//go:noinline
func (s *Sched) SyncPoint(site uint32) {
	if atomic.LoadUint32(&s.free) != 0 {
		return
	}
	t := s.cur
	if t == nil || s.syncCountdown < 0 {
		return
	}
	s.SyncPoints++
	s.syncCountdown--
	if s.syncCountdown > 0 {
		return
	}
	if curGoid() != t.goid {
		return
	}
	s.Steps++
	t.Steps++
	if int(site) < len(s.SiteHits) {
		s.SiteHits[site]++
	}
	s.SyncSwitches++
	s.lastSite = site
	s.syncSwitch = true
	s.handoff(t, evYield)
}

// Blocked is the hook of the cooperative Lock: the current task found the
// lock taken.  It always hands control back; the scheduler will not pick
// this task again before some other task has run.
//
//go:norace
//go:noinline
func (s *Sched) Blocked(site uint32) {
	if atomic.LoadUint32(&s.free) != 0 {
		runtime.Gosched()
		return
	}
	t := s.cur
	if t == nil {
		runtime.Gosched()
		return
	}
	if curGoid() != t.goid {
		s.Foreign++
		runtime.Gosched()
		return
	}
	// a failed attempt to take a lock is global time, but not progress (or
	// lack of progress) of the task's operation: a caller legitimately waits
	// as long as the holder needs
	s.Steps++
	if int(site) < len(s.SiteHits) {
		s.SiteHits[site]++
	}
	s.lastSite = site
	t.BlockedSite = site
	s.handoff(t, evBlocked)
}

//go:norace
//go:noinline
func (s *Sched) handoff(t *Task, ev int) {
	raceDisable()
	s.back <- ev
	<-t.wake
	raceEnable()
}

// OpBegin marks the start of an operation of task t.
//
//go:norace
//go:noinline
func (s *Sched) OpBegin(t *Task) { t.opStart = t.Steps }

// OpEnd marks the end of an operation; in run-to-completion mode this is
// the only place a switch can happen.
//
//go:norace
//go:noinline
func (s *Sched) OpEnd(t *Task) {
	t.OpSteps = append(t.OpSteps, t.Steps-t.opStart)
	if atomic.LoadUint32(&s.free) != 0 {
		return
	}
	if s.Cfg.Policy == PolRTC {
		s.lastSite = 0
		s.handoff(t, evOpDone)
	}
}

//go:norace
//go:noinline
func (s *Sched) finish(t *Task) {
	t.done = true
	raceDisable()
	s.back <- evDone
	raceEnable()
}

//go:norace
//go:noinline
func setGoid(t *Task) { t.goid = curGoid() }

//go:norace
//go:noinline
func getGoid(t *Task) uint64 { return t.goid }

func (s *Sched) taskBody(t *Task) {
	setGoid(t)
	raceDisable()
	<-t.wake
	raceEnable()
	func() {
		defer func() {
			if e := recover(); e != nil {
				t.Panic = fmt.Sprint(e)
			}
		}()
		t.fn(t)
	}()
	s.finish(t)
	s.wg.Done() // a real happens-before edge: task exit -> result inspection
}

// runnable returns the live tasks that are not waiting for a lock; if every
// live task is waiting, ok is false and all live tasks are returned.
func (s *Sched) runnable() (out []*Task, ok bool) {
	var live []*Task
	for _, t := range s.Tasks {
		if t.done {
			continue
		}
		live = append(live, t)
		if t.blockedAt <= s.progress && t.sleepUntil <= s.Steps {
			out = append(out, t)
		}
	}
	if len(out) == 0 {
		// nobody is runnable: if somebody is merely asleep, the earliest
		// sleeper wakes up (time jumps); otherwise everybody waits for a lock
		var first *Task
		for _, t := range live {
			if t.blockedAt <= s.progress && (first == nil || t.sleepUntil < first.sleepUntil) {
				first = t
			}
		}
		if first != nil {
			first.sleepUntil = 0
			return []*Task{first}, true
		}
		return live, false
	}
	return out, true
}

func (s *Sched) pick(live []*Task) *Task {
	switch s.Cfg.Policy {
	case PolPCT:
		best := live[0]
		for _, t := range live[1:] {
			if t.prio > best.prio {
				best = t
			}
		}
		return best
	case PolRR:
		for i := 0; i < len(s.Tasks); i++ {
			t := s.Tasks[(s.rrNext+i)%len(s.Tasks)]
			for _, l := range live {
				if l == t {
					s.rrNext = (t.ID + 1) % len(s.Tasks)
					return t
				}
			}
		}
		return live[0]
	case PolStall:
		var others []*Task
		for _, t := range live {
			if t.ID != s.Cfg.Victim {
				others = append(others, t)
			}
		}
		if len(others) > 0 {
			live = others
		}
	}
	return live[s.T.Choose("sched", "next", len(live))]
}

func (s *Sched) quantum() int64 {
	switch s.Cfg.Policy {
	case PolPCT:
		// run until the next priority change point
		for len(s.changeAt) > 0 && s.changeAt[0] <= s.Steps {
			s.changeAt = s.changeAt[1:]
		}
		if len(s.changeAt) > 0 {
			return int64(s.changeAt[0] - s.Steps)
		}
		return 1 << 40
	case PolRR:
		return int64(s.Cfg.Mean)
	case PolRTC:
		return 1 << 40
	}
	return 1 + int64(s.T.Choose("sched", "quantum", 2*s.Cfg.Mean))
}

// Run executes all tasks to completion under the tape-decided schedule.
func (s *Sched) Run() {
	n := len(s.Tasks)
	if n == 0 {
		return
	}
	if s.Cfg.Policy == PolPCT {
		// random priorities, d-1 change points over the expected length
		for i, t := range s.Tasks {
			t.prio = 1000 + s.T.Choose("sched", "prio", 1000)*n + i
		}
		est := s.Cfg.EstSteps
		if est == 0 {
			est = 100000
		}
		for i := 0; i < s.Cfg.PCTDepth; i++ {
			s.changeAt = append(s.changeAt, uint64(s.T.Choose("sched", "change_at", int(est))))
		}
		// sort ascending (tiny)
		for i := range s.changeAt {
			for j := i + 1; j < len(s.changeAt); j++ {
				if s.changeAt[j] < s.changeAt[i] {
					s.changeAt[i], s.changeAt[j] = s.changeAt[j], s.changeAt[i]
				}
			}
		}
	}
	s.wg.Add(n)
	for _, t := range s.Tasks {
		go s.taskBody(t)
	}
	timer := time.NewTimer(s.Watchdog)
	defer timer.Stop()
	h := fnv.New64a()
	live := n
	var prevSite uint32
	lowPrio := 0
	for live > 0 {
		rl, ok := s.runnable()
		if !ok {
			// every live task waits for a lock: either a lock-order deadlock
			// among the tasks, or the holder is not a simulation task.  Give
			// real time a chance, then fall back (which ends in the deadlock
			// verdict if nobody ever finishes).
			s.allBlocked++
			if s.allBlocked > 2000 {
				s.freeRunDeadline = 5 * time.Second
				s.freeRunFallback(live)
				return
			}
			time.Sleep(time.Millisecond)
			s.progress++
		}
		next := s.pick(rl)
		s.countdown = s.quantum()
		// forced switch at the k-th synchronisation point from here
		switch s.Cfg.SyncEvery {
		case 0:
			s.syncCountdown = -1
		default:
			s.syncCountdown = 1 + int64(s.T.Choose("sched", "sync", s.Cfg.SyncEvery))
		}
		if s.Cfg.GCEvery > 0 && s.T.Choose("sched", "gc", s.Cfg.GCEvery) == 0 && s.GCs < 16 {
			runtime.GC()
			s.GCs++
		}
		stallActive := s.Cfg.Policy == PolStall && next.ID != s.Cfg.Victim && !s.Tasks[s.Cfg.Victim%n].done
		before := s.Steps
		s.cur = next
		if !timer.Stop() {
			select {
			case <-timer.C:
			default:
			}
		}
		timer.Reset(s.Watchdog)
		var ev int
		timedOut := false
		raceDisable()
		next.wake <- struct{}{}
	wait:
		for waited := 0; ; waited++ {
			select {
			case ev = <-s.back:
				break wait
			case <-timer.C:
				// No hand-off for a whole watchdog period.  If the task's
				// goroutine is running or runnable it is merely starved (a
				// loaded machine): keep waiting.  Only a goroutine that sits
				// in a wait state (semaphore, channel, condition variable)
				// is blocked inside the library where the scheduler cannot
				// see it.
				if waited < 30 && goroutineBusy(getGoid(next)) {
					timer.Reset(s.Watchdog)
					continue
				}
				timedOut = true
				break wait
			}
		}
		raceEnable()
		if timedOut {
			s.freeRunFallback(live)
			return
		}
		s.cur = nil
		if stallActive {
			s.Stalled += s.Steps - before
		}
		s.Switches++
		fmt.Fprintf(h, "%d@%d;", next.ID, s.lastSite)
		if ev == evYield {
			s.PreemptAt[s.lastSite]++
			s.Pairs[uint64(prevSite)<<32|uint64(s.lastSite)] = struct{}{}
			prevSite = s.lastSite
		}
		if s.syncSwitch {
			// right after a synchronisation point the caller may be stalled
			// for a long time (tape-decided), while the others carry on
			s.syncSwitch = false
			// (one switch in four: if every caller napped at every
			// synchronisation point they would merely take turns)
			nap := []uint64{0, 0, 0, 0, 0, 0, 0, 0, 0, 0, 0, 0, 20_000, 200_000, 2_000_000, 2_000_000}[s.T.Choose("sched", "nap", 16)]
			if nap > 0 {
				next.sleepUntil = s.Steps + nap
				s.Naps++
			}
		}
		if ev == evBlocked {
			next.blockedAt = s.progress + 1
			s.LockWaits++
		} else {
			s.progress++
			s.allBlocked = 0
		}
		switch ev {
		case evDone:
			live--
		case evYield:
			if s.Cfg.Policy == PolPCT && len(s.changeAt) > 0 && s.changeAt[0] <= s.Steps {
				lowPrio--
				next.prio = lowPrio // demote below everyone
			}
		}
		if s.Steps >= s.Cfg.MaxSteps {
			s.StepCapHit = true
			// let everything finish without further interleaving
			s.freeRunFallback(live)
			s.FreeRun = false
			return
		}
	}
	s.wg.Wait()
	s.sig = h.Sum64()
}

// freeRunFallback: a task blocked inside the library where the scheduler
// cannot see it (a lock taken by a parked task).  Release everything, make
// yields no-ops, and let the Go scheduler finish the run.
func (s *Sched) freeRunFallback(live int) {
	s.FreeRun = true
	atomic.StoreUint32(&s.free, 1)
	for _, t := range s.Tasks {
		select {
		case t.wake <- struct{}{}:
		default:
		}
	}
	dl := s.freeRunDeadline
	if dl == 0 {
		dl = 20 * time.Second
	}
	deadline := time.After(dl)
	// the task that timed out may still deliver its pending event
	doneCh := make(chan struct{})
	go func() { s.wg.Wait(); close(doneCh) }()
	for {
		select {
		case <-s.back:
			// a task that passed the free-run check just before it was
			// set may park once more: keep every wake buffer topped up
			for _, t := range s.Tasks {
				select {
				case t.wake <- struct{}{}:
				default:
				}
			}
		case <-doneCh:
			return
		case <-deadline:
			s.Deadlock = true
			return
		}
	}
}

// Sig is the schedule signature (hash of the (task, site) switch sequence).
func (s *Sched) Sig() string { return fmt.Sprintf("%016x", s.sig) }
