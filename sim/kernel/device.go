package kernel

import (
	"bufio"
	"bytes"
	"errors"
	"fmt"
	"io"
	"strings"
)

// Fault-injecting entropy device (an io.Reader).  Its whole behaviour is
// fixed by DevCfg before the first Read, so a Read never draws from the tape
// and the device behaves identically in the concurrent and the solo phase of
// a run.

// Payload kinds.
const (
	PayPRNG     = iota // healthy: pseudo-random bytes from Seed
	PayConst           // every byte = Const
	PayCounter         // byte i = i (mod 256), offset Const
	PayPeriodic        // the first Period bytes of the PRNG stream, repeated
	PayScripted        // Script, then PRNG
	NumPayloads
)

// Error kinds.
const (
	ErrNone = iota
	ErrEOF
	ErrUnexpectedEOF
	ErrCustom
	// ErrTemporary is an error that announces itself as transient
	// (Temporary() == true, like EINTR / EAGAIN) and keeps coming back.
	ErrTemporary
	// ErrPanic: the reader does not return at all - it panics (a broken
	// driver, a nil map in somebody's wrapper); the panic travels through
	// the library to the caller, who recovers and goes on using its keys.
	ErrPanic
)

// DevicePanicMsg is the value a device of kind ErrPanic panics with.
const DevicePanicMsg = "simulated entropy device: the reader panicked"

// TemporaryError is the transient device error.
type TemporaryError struct{}

func (TemporaryError) Error() string {
	return "simulated entropy device: resource temporarily unavailable"
}
func (TemporaryError) Temporary() bool { return true }
func (TemporaryError) Timeout() bool   { return false }

// ErrDevice is the "custom" device error.
var ErrDevice = errors.New("simulated entropy device failure")

// DevCfg fully determines a device.
type DevCfg struct {
	Payload int    `json:"payload"`
	Seed    uint64 `json:"seed,omitempty"`
	Const   byte   `json:"const,omitempty"`
	Period  int    `json:"period,omitempty"`
	Script  []byte `json:"script,omitempty"`

	// Chunks is the cyclic schedule of read sizes; 0 entries are
	// zero-length reads "(0, nil)".  Empty = always fill the buffer.
	Chunks []int `json:"chunks,omitempty"`

	// ErrAt >= 0: the device fails after exactly ErrAt delivered bytes.
	ErrAt       int  `json:"err_at"`
	ErrKind     int  `json:"err_kind,omitempty"`
	ErrWithData bool `json:"err_with_data,omitempty"` // deliver (n>0, err) instead of (n,nil),(0,err)

	// Helper: the bytes are written into the caller's buffer by ANOTHER
	// goroutine (an entropy daemon, a hardware-token driver) while the
	// goroutine that called Read goes deep enough into its own code for the
	// runtime to move its stack; Read returns when the helper is done.  Legal
	// for an io.Reader; it matters to a caller whose buffer is not where the
	// runtime believes it is.
	Helper bool `json:"helper,omitempty"`

	// Std > 0: the caller does not see a reader type of the simulator's own
	// but one of the standard library's in-memory readers, holding the bytes
	// the device would deliver before it fails (at most 64; a device that
	// fails at byte j becomes a reader that ends after j bytes): 1
	// *bytes.Buffer, 2 *bytes.Reader, 3 *strings.Reader, 4 a *bufio.Reader
	// around a *bytes.Reader.  A library may special-case concrete reader
	// types; the interface contract is the same.  Chunks are ignored.
	Std int `json:"std,omitempty"`

	// GC > 0: the first Read that is asked for bytes runs GC complete
	// garbage collections and lets the finalizers they queued finish before
	// it delivers anything - the collector as a fault INSIDE the call, at the
	// one point where the library is waiting for its caller.  Whatever the
	// library (or the caller) no longer references at that instant is gone
	// when the bytes arrive.
	GC int `json:"gc,omitempty"`

	// Reenter: the reader itself uses the library while the caller waits in
	// Read (an entropy source that authenticates what it fetches; a wrapper
	// that logs a signed record).  The device only announces it; the world
	// that owns the device decides what the reader does (Device.Yield).
	Reenter bool `json:"reenter,omitempty"`
}

// StdKinds is the number of values Std takes (0 = the device itself).
const StdKinds = 5

// Healthy returns the configuration of a healthy device.
func Healthy(seed uint64) DevCfg { return DevCfg{Payload: PayPRNG, Seed: seed, ErrAt: -1} }

// ReadRec is one logged Read call.
type ReadRec struct {
	Req int `json:"req"`
	N   int `json:"n"`
	Err int `json:"err,omitempty"`
}

// Device implements io.Reader.
type Device struct {
	Cfg       DevCfg
	Delivered int
	Log       []ReadRec
	Bytes     []byte // everything delivered so far
	Yield     func() // optional: called at the start of every Read (scheduler hook)
	StackSink int    // keeps growStack's result alive

	stdData []byte
	stdLeft func() int

	chunkPos int
	gcDone   bool
	failed   bool
	pend     bool // error pending delivery on the next call
	prng     []byte
}

// MaxEmptyRun is the longest run of consecutive reads so far that returned
// (0, nil) although bytes were asked for.
func (d *Device) MaxEmptyRun() int {
	best, cur := 0, 0
	for _, r := range d.Log {
		if r.Req > 0 && r.N == 0 && r.Err == 0 {
			if cur++; cur > best {
				best = cur
			}
		} else {
			cur = 0
		}
	}
	return best
}

// PatienceBound: a caller of a reader may lose patience with one that keeps
// answering (0, nil) - bufio gives up with io.ErrNoProgress after 100 such
// reads - and fail with an error.  Up to this many in a row every signer
// must sit through (the io package's own loops do); beyond it, giving up
// WITH AN ERROR is counted, not reported.
const PatienceBound = 3

// Reader is what the caller hands to the library: the device, or (Std > 0)
// a standard-library reader holding its bytes.  Settle must be called after
// the library call.
func (d *Device) Reader() io.Reader {
	if d.Cfg.Std == 0 {
		return d
	}
	n := 64
	if d.Cfg.ErrAt >= 0 && d.Cfg.ErrAt < n {
		n = d.Cfg.ErrAt
	}
	d.stdData = make([]byte, n)
	for i := range d.stdData {
		d.stdData[i] = d.byteAt(i)
	}
	switch d.Cfg.Std {
	case 1:
		b := bytes.NewBuffer(append([]byte(nil), d.stdData...))
		d.stdLeft = b.Len
		return b
	case 2:
		b := bytes.NewReader(append([]byte(nil), d.stdData...))
		d.stdLeft = b.Len
		return b
	case 3:
		b := strings.NewReader(string(d.stdData))
		d.stdLeft = b.Len
		return b
	default:
		inner := bytes.NewReader(append([]byte(nil), d.stdData...))
		b := bufio.NewReaderSize(inner, 16)
		d.stdLeft = func() int { return inner.Len() + b.Buffered() }
		return b
	}
}

// Settle brings the device's counters up to date after a call that read
// from a standard-library reader: how many bytes the library took.
func (d *Device) Settle() {
	if d.stdLeft == nil {
		return
	}
	took := len(d.stdData) - d.stdLeft()
	d.Delivered = took
	d.Bytes = append([]byte(nil), d.stdData[:took]...)
	d.Log = []ReadRec{{Req: took, N: took}}
	d.stdLeft = nil
}

// NewDevice returns a device for cfg.
func NewDevice(cfg DevCfg) *Device { return &Device{Cfg: cfg} }

func (d *Device) prngByte(i int) byte {
	for len(d.prng) <= i {
		n := len(d.prng)
		if n == 0 {
			n = 64
		}
		d.prng = Expand(d.Cfg.Seed, n*2)
	}
	return d.prng[i]
}

func (d *Device) byteAt(i int) byte {
	switch d.Cfg.Payload {
	case PayConst:
		return d.Cfg.Const
	case PayCounter:
		return byte(i) + d.Cfg.Const
	case PayPeriodic:
		p := d.Cfg.Period
		if p <= 0 {
			p = 1
		}
		return d.prngByte(i % p)
	case PayScripted:
		if i < len(d.Cfg.Script) {
			return d.Cfg.Script[i]
		}
		return d.prngByte(i - len(d.Cfg.Script))
	default:
		return d.prngByte(i)
	}
}

func (d *Device) err() error {
	switch d.Cfg.ErrKind {
	case ErrEOF:
		return io.EOF
	case ErrUnexpectedEOF:
		return io.ErrUnexpectedEOF
	case ErrTemporary:
		return TemporaryError{}
	case ErrPanic:
		panic(DevicePanicMsg)
	default:
		return ErrDevice
	}
}

// Read implements io.Reader with the configured faults.
//
//go:norace
func (d *Device) Read(p []byte) (int, error) {
	if d.Yield != nil {
		d.Yield()
	}
	if d.Cfg.GC > 0 && !d.gcDone && len(p) > 0 {
		d.gcDone = true
		CollectGarbage(d.Cfg.GC)
	}
	n, err := d.read(p)
	rec := ReadRec{Req: len(p), N: n}
	if err != nil {
		rec.Err = d.Cfg.ErrKind
		if rec.Err == ErrNone {
			rec.Err = ErrCustom
		}
	}
	d.Log = append(d.Log, rec)
	return n, err
}

func (d *Device) read(p []byte) (int, error) {
	if d.failed || d.pend {
		d.failed, d.pend = true, false
		return 0, d.err()
	}
	if len(p) == 0 {
		return 0, nil
	}
	want := len(p)
	if len(d.Cfg.Chunks) > 0 {
		c := d.Cfg.Chunks[d.chunkPos%len(d.Cfg.Chunks)]
		d.chunkPos++
		if c < want {
			want = c
		}
	}
	hitErr := false
	if d.Cfg.ErrAt >= 0 && d.Delivered+want >= d.Cfg.ErrAt {
		// A zero-length scheduled read before the error position stays a
		// zero-length read unless we are exactly at the position.
		if want > 0 || d.Delivered == d.Cfg.ErrAt {
			want = d.Cfg.ErrAt - d.Delivered
			hitErr = true
		}
	}
	if d.Cfg.Helper && want > 0 {
		data := make([]byte, want)
		for i := range data {
			data[i] = d.byteAt(d.Delivered + i)
		}
		d.Bytes = append(d.Bytes, data...)
		start, done := make(chan struct{}), make(chan struct{})
		go func(dst []byte) {
			<-start
			copy(dst, data)
			close(done)
		}(p[:want])
		d.StackSink += growStack(192)
		close(start)
		<-done
	} else {
		for i := 0; i < want; i++ {
			b := d.byteAt(d.Delivered + i)
			p[i] = b
			d.Bytes = append(d.Bytes, b)
		}
	}
	d.Delivered += want
	if hitErr {
		if want == 0 || d.Cfg.ErrWithData {
			d.failed = true
			return want, d.err()
		}
		d.pend = true
	}
	return want, nil
}

// growStack uses about depth KiB of stack below its caller: on a goroutine
// whose stack is smaller than that the runtime allocates a larger one and
// moves the frames (and every pointer it knows of) over.
//
//go:noinline
func growStack(depth int) int {
	var pad [1024]byte
	pad[depth%len(pad)] = byte(depth)
	if depth == 0 {
		return int(pad[0])
	}
	return growStack(depth-1) + int(pad[depth%len(pad)])
}

// OnFreshStack runs f on a new goroutine (whose stack starts at the minimum
// size, so that a Helper device's Read is certain to move it) and waits.
func OnFreshStack(f func()) {
	done := make(chan struct{})
	go func() {
		defer close(done)
		f()
	}()
	<-done
}

// Summary is a short human-readable description.
func (c DevCfg) Summary() string {
	pay := [...]string{"prng", "const", "counter", "periodic", "scripted"}[c.Payload]
	switch c.Payload {
	case PayConst:
		pay = fmt.Sprintf("const(%#02x)", c.Const)
	case PayPeriodic:
		pay = fmt.Sprintf("periodic(%d)", c.Period)
	case PayScripted:
		pay = fmt.Sprintf("scripted(%dB)", len(c.Script))
	}
	s := pay
	if len(c.Chunks) > 0 {
		s += fmt.Sprintf(" chunks=%v", c.Chunks)
	}
	if c.Std > 0 {
		s += " presented-as-" + [...]string{"", "*bytes.Buffer", "*bytes.Reader", "*strings.Reader", "*bufio.Reader(*bytes.Reader)"}[c.Std%StdKinds]
	}
	if c.Helper {
		s += " filled-by-helper-goroutine+stack-move"
	}
	if c.GC > 0 {
		s += fmt.Sprintf(" gc-x%d-inside-first-read", c.GC)
	}
	if c.Reenter {
		s += " reader-signs-with-another-key-inside-first-read"
	}
	if c.ErrAt >= 0 {
		k := [...]string{"?", "EOF", "ErrUnexpectedEOF", "custom", "temporary", "PANIC"}[c.ErrKind]
		s += fmt.Sprintf(" err@%d=%s", c.ErrAt, k)
		if c.ErrWithData {
			s += "+data"
		}
	}
	return s
}

// SharedEntropy is a deterministic stand-in for the system entropy source
// (crypto/rand.Reader) in worlds where several simulated callers draw from
// it: what it delivers depends only on its seed and on the order of the
// reads, which the scheduler decides.  All of it is invisible to the race
// detector (the callers are serialised; to the detector they would look like
// unsynchronised users of one reader, which the real crypto/rand.Reader
// tolerates).
type SharedEntropy struct {
	state uint64
	Reads int
}

// NewSharedEntropy returns a reader seeded with seed.
func NewSharedEntropy(seed uint64) *SharedEntropy { return &SharedEntropy{state: seed | 1} }

// Read implements io.Reader.
//
//go:norace
//go:noinline
func (e *SharedEntropy) Read(p []byte) (int, error) {
	e.Reads++
	for i := range p {
		// xorshift64*
		e.state ^= e.state >> 12
		e.state ^= e.state << 25
		e.state ^= e.state >> 27
		p[i] = byte((e.state * 0x2545f4914f6cdd1d) >> 56)
	}
	return len(p), nil
}
