package kernel

import (
	"runtime"
	"time"
)

type gcSentinel struct{ p *int }

// CollectGarbage runs n complete collections and then waits until the
// runtime's finalizer goroutine has worked through what they queued (a
// sentinel object's finalizer is queued last; 200 ms of real time at most -
// the wait only bounds the harness, nothing is decided by it).  Two
// collections empty every sync.Pool completely (the first moves the pools to
// their victim caches).
func CollectGarbage(n int) {
	for i := 0; i < n; i++ {
		runtime.GC()
	}
	done := make(chan struct{})
	func() {
		s := &gcSentinel{p: new(int)}
		runtime.SetFinalizer(s, func(*gcSentinel) { close(done) })
	}()
	runtime.GC()
	select {
	case <-done:
	case <-time.After(200 * time.Millisecond):
	}
}
