package kernel

import (
	"crypto/sha256"
	"encoding/hex"
	"fmt"
	"hash"
	"sort"
)

// Violation is one breach of one property.
type Violation struct {
	Property string `json:"property"`
	Class    string `json:"class"`  // stable violation class, e.g. "nonce-reuse"
	Key      string `json:"key"`    // identifies the call site / op kind / input for known-finding matching
	Detail   string `json:"detail"` // human-readable
	Step     int    `json:"step"`   // history step at which it was detected
}

// Result is what one simulated run reports.
type Result struct {
	World      string              `json:"world"`
	Prop       string              `json:"prop"`
	Variant    string              `json:"variant"`
	VerifSeed  uint64              `json:"verif_seed"`
	Idx        int                 `json:"idx"`
	RunSeed    uint64              `json:"run_seed"`
	Digest     string              `json:"digest"` // SHA-256 over the canonical history (inputs and outputs of every step)
	Steps      int                 `json:"steps"`  // simulated time: operations / yield points
	Ops        int                 `json:"ops"`
	Violations []Violation         `json:"violations,omitempty"`
	Faults     map[string]int      `json:"faults,omitempty"` // fault kinds that actually fired
	Probes     map[string]int      `json:"probes,omitempty"` // reach probes
	Cfg        map[string]any      `json:"cfg,omitempty"`
	Trace      []string            `json:"trace,omitempty"` // human-readable event trace
	Tape       map[string][]Choice `json:"tape,omitempty"`
	Sig        string              `json:"sig,omitempty"` // schedule / history signature for distinctness counting
	FreeRun    bool                `json:"freerun,omitempty"`
	WallUS     int64               `json:"wall_us"`
	JobFrom    int                 `json:"job_from"` // first run index of the process that executed this run
}

// Run carries the per-run recording state shared by all worlds.
type Run struct {
	T      *Tape
	Res    *Result
	h      hash.Hash
	sub    hash.Hash // optional sub-digest (one enumerated case)
	trace  bool
	Filter string // property id whose violations are reported ("" = all)
}

// NewRun prepares a run.
func NewRun(t *Tape, res *Result, trace bool) *Run {
	res.Faults = map[string]int{}
	res.Probes = map[string]int{}
	res.Cfg = map[string]any{"depth": Depth}
	return &Run{T: t, Res: res, h: sha256.New(), trace: trace}
}

// Hist appends one record to the canonical history (digest) and, when
// tracing, to the readable trace.
func (r *Run) Hist(format string, args ...any) {
	s := fmt.Sprintf(format, args...)
	r.h.Write([]byte(s))
	r.h.Write([]byte{'\n'})
	if r.sub != nil {
		r.sub.Write([]byte(s))
		r.sub.Write([]byte{'\n'})
	}
	if r.trace {
		r.Res.Trace = append(r.Res.Trace, s)
	}
}

// Note appends to the trace only (not to the digest).
func (r *Run) Note(format string, args ...any) {
	if r.trace {
		r.Res.Trace = append(r.Res.Trace, "# "+fmt.Sprintf(format, args...))
	}
}

// Fault counts a fault that actually fired.
func (r *Run) Fault(kind string) { r.Res.Faults[kind]++ }

// Probe counts a reach probe.
func (r *Run) Probe(name string) { r.Res.Probes[name]++ }

// ProbeN adds n to a reach probe.
func (r *Run) ProbeN(name string, n int) { r.Res.Probes[name] += n }

// Violate records a violation.
func (r *Run) Violate(prop, class, key string, step int, format string, args ...any) {
	v := Violation{Property: prop, Class: class, Key: key, Step: step, Detail: fmt.Sprintf(format, args...)}
	r.Note("VIOLATION %s %s %s: %s", prop, class, key, v.Detail)
	// an oracle that fires is part of the history: two builds (C19) or two
	// executions of one tape that differ only in what an oracle saw have
	// different digests.  The detail is left out (it may quote addresses).
	fmt.Fprintf(r.h, "!%s/%s/%s@%d\n", prop, class, key, step)
	r.Res.Violations = append(r.Res.Violations, v)
}

// SubBegin starts a sub-digest over the records that follow.
func (r *Run) SubBegin() { r.sub = sha256.New() }

// SubEnd returns the sub-digest and stops it.
func (r *Run) SubEnd() string {
	d := hex.EncodeToString(r.sub.Sum(nil))
	r.sub = nil
	return d
}

// FaultTotal is the number of faults fired so far.
func (r *Run) FaultTotal() int {
	n := 0
	for _, v := range r.Res.Faults {
		n += v
	}
	return n
}

// Finish seals the digest.
func (r *Run) Finish() {
	r.Res.Digest = hex.EncodeToString(r.h.Sum(nil))
}

// Hex is a short helper.
func Hex(b []byte) string { return hex.EncodeToString(b) }

// SortedKeys returns the keys of a counter map in sorted order.
func SortedKeys(m map[string]int) []string {
	ks := make([]string, 0, len(m))
	for k := range m {
		ks = append(ks, k)
	}
	sort.Strings(ks)
	return ks
}
