// Package kernel is the deterministic simulation kernel: PRNG, choice tape,
// serialising scheduler, fault-injecting devices.
//
// One integer decides everything: every decision taken during a run is a
// Tape.Choose call.  In generate mode the value is drawn from a per-stream
// xoshiro256** generator keyed by (run seed, stream name); in replay mode
// the values recorded for that stream are handed back in order.
package kernel

import (
	"encoding/binary"
	"encoding/hex"
	"encoding/json"
	"fmt"
	"hash/fnv"
	"sort"
)

// ---------------------------------------------------------------- PRNG

func splitmix64(x *uint64) uint64 {
	*x += 0x9e3779b97f4a7c15
	z := *x
	z = (z ^ (z >> 30)) * 0xbf58476d1ce4e5b9
	z = (z ^ (z >> 27)) * 0x94d049bb133111eb
	return z ^ (z >> 31)
}

// Mix hashes a list of integers and strings into one 64-bit value.
func Mix(parts ...interface{}) uint64 {
	h := fnv.New64a()
	var b [8]byte
	for _, p := range parts {
		switch v := p.(type) {
		case uint64:
			binary.LittleEndian.PutUint64(b[:], v)
			h.Write(b[:])
		case int:
			binary.LittleEndian.PutUint64(b[:], uint64(v))
			h.Write(b[:])
		case string:
			h.Write([]byte(v))
			h.Write([]byte{0})
		default:
			panic("kernel.Mix: unsupported type")
		}
	}
	x := h.Sum64()
	return splitmix64(&x)
}

type xoshiro struct{ s [4]uint64 }

func newXoshiro(seed uint64) *xoshiro {
	var x xoshiro
	sm := seed
	for i := range x.s {
		x.s[i] = splitmix64(&sm)
	}
	return &x
}

func rotl(x uint64, k uint) uint64 { return (x << k) | (x >> (64 - k)) }

func (x *xoshiro) next() uint64 {
	s := &x.s
	r := rotl(s[1]*5, 7) * 9
	t := s[1] << 17
	s[2] ^= s[0]
	s[3] ^= s[1]
	s[1] ^= s[2]
	s[0] ^= s[3]
	s[2] ^= t
	s[3] = rotl(s[3], 45)
	return r
}

// ---------------------------------------------------------------- tape

// Choice is one recorded decision.  JSON form: ["label", n, v].
type Choice struct {
	Label string
	N     uint64 // number of alternatives; 0 = full 64-bit draw
	V     uint64
}

// MarshalJSON encodes a choice as ["label", n, v].
func (c Choice) MarshalJSON() ([]byte, error) {
	l, _ := json.Marshal(c.Label)
	return []byte(fmt.Sprintf("[%s,%d,%d]", l, c.N, c.V)), nil
}

// UnmarshalJSON decodes ["label", n, v].
func (c *Choice) UnmarshalJSON(b []byte) error {
	var raw []json.RawMessage
	if err := json.Unmarshal(b, &raw); err != nil {
		return err
	}
	if len(raw) != 3 {
		return fmt.Errorf("kernel: choice must be [label, n, v]")
	}
	if err := json.Unmarshal(raw[0], &c.Label); err != nil {
		return err
	}
	if err := json.Unmarshal(raw[1], &c.N); err != nil {
		return err
	}
	return json.Unmarshal(raw[2], &c.V)
}

type stream struct {
	name string
	rng  *xoshiro
	in   []Choice // replay input (nil in generate mode)
	pos  int
	rec  []Choice
}

// Tape holds all choice streams of one run.
type Tape struct {
	RunSeed uint64
	replay  bool
	streams map[string]*stream
	src     map[string][]Choice
	// NoRecord streams still draw deterministically but are not kept
	// (used for very long streams whose values are re-derivable).
}

// NewTape returns a generating tape.
func NewTape(runSeed uint64) *Tape {
	return &Tape{RunSeed: runSeed, streams: map[string]*stream{}}
}

// NewReplayTape returns a tape that replays `src`.  A stream that is not in
// `src`, or that is exhausted, yields zeros ("the simplest alternative").
func NewReplayTape(runSeed uint64, src map[string][]Choice) *Tape {
	return &Tape{RunSeed: runSeed, replay: true, streams: map[string]*stream{}, src: src}
}

func (t *Tape) get(name string) *stream {
	s := t.streams[name]
	if s == nil {
		s = &stream{name: name}
		if t.replay {
			s.in = t.src[name]
		} else {
			s.rng = newXoshiro(Mix(t.RunSeed, name))
		}
		t.streams[name] = s
	}
	return s
}

// Choose returns a value in [0,n).  n must be >= 1.
func (t *Tape) Choose(streamName, label string, n int) int {
	if n <= 0 {
		panic("kernel.Tape.Choose: n <= 0")
	}
	s := t.get(streamName)
	var v uint64
	if t.replay {
		if s.pos < len(s.in) {
			v = s.in[s.pos].V
			s.pos++
		}
		if v >= uint64(n) {
			v = uint64(n - 1)
		}
	} else {
		// Lemire-free simple modulo; bias is irrelevant here.
		v = s.rng.next() % uint64(n)
	}
	s.rec = append(s.rec, Choice{label, uint64(n), v})
	return int(v)
}

// U64 returns a full 64-bit draw (recorded with N=0).
func (t *Tape) U64(streamName, label string) uint64 {
	s := t.get(streamName)
	var v uint64
	if t.replay {
		if s.pos < len(s.in) {
			v = s.in[s.pos].V
			s.pos++
		}
	} else {
		v = s.rng.next()
	}
	s.rec = append(s.rec, Choice{label, 0, v})
	return v
}

// Bool is Choose(…, 2) == 1.
func (t *Tape) Bool(streamName, label string) bool { return t.Choose(streamName, label, 2) == 1 }

// Chance returns true with probability num/den (value 0 = false, so a
// shrunk tape takes the "no" branch).
func (t *Tape) Chance(streamName, label string, num, den int) bool {
	return t.Choose(streamName, label, den) >= den-num
}

// Bytes returns n pseudo-random bytes derived from ONE recorded 64-bit draw,
// so that replay files stay readable and shrinking a byte string is
// shrinking one integer.
func (t *Tape) Bytes(streamName, label string, n int) []byte {
	return Expand(t.U64(streamName, label), n)
}

// Expand deterministically expands a 64-bit value to n bytes.
func Expand(seed uint64, n int) []byte {
	out := make([]byte, 0, n+8)
	sm := seed ^ 0x5851f42d4c957f2d
	for len(out) < n {
		var b [8]byte
		binary.BigEndian.PutUint64(b[:], splitmix64(&sm))
		out = append(out, b[:]...)
	}
	return out[:n]
}

// Record returns everything drawn so far, keyed by stream (the canonical
// tape of this run).
func (t *Tape) Record() map[string][]Choice {
	out := make(map[string][]Choice, len(t.streams))
	for k, s := range t.streams {
		if len(s.rec) > 0 {
			out[k] = append([]Choice(nil), s.rec...)
		}
	}
	return out
}

// StreamNames returns the stream names in sorted order.
func StreamNames(m map[string][]Choice) []string {
	names := make([]string, 0, len(m))
	for k := range m {
		names = append(names, k)
	}
	sort.Strings(names)
	return names
}

// TapeDigest is a stable digest of a recorded tape.
func TapeDigest(m map[string][]Choice) string {
	h := fnv.New64a()
	for _, k := range StreamNames(m) {
		fmt.Fprintf(h, "%s:", k)
		for _, c := range m[k] {
			fmt.Fprintf(h, "%d/%d,", c.V, c.N)
		}
	}
	return hex.EncodeToString(h.Sum(nil))
}

// RunSeed derives the per-run seed from VERIF_SEED, the world name and the
// run index.
func RunSeed(verifSeed uint64, world string, idx int) uint64 {
	return Mix(verifSeed, world, idx)
}
