package kernel

import (
	crand "crypto/rand"
	"errors"
	"io"
	"os"
)

// The system entropy source as a fault of the PROCESS: with
// VERIF_SYSTEM_ENTROPY=fail|zeros in the environment, crypto/rand.Reader is
// broken from before any package that uses the library is initialised (this
// package does not import the library, so its init runs first) until the
// simulation process restores it after its first history.  An early-boot
// process, a sandbox without /dev/urandom: a library that lazily samples a
// process-wide mask or seed gets a bad one.  The driver sets the variable
// for some pool-world jobs (no pool-world operation asks for system entropy
// on the unchanged tree).
type brokenSystemEntropy struct{ zeros bool }

func (b brokenSystemEntropy) Read(p []byte) (int, error) {
	if !b.zeros {
		return 0, errors.New("simulated system entropy source: not available")
	}
	for i := range p {
		p[i] = 0
	}
	return len(p), nil
}

var realSystemEntropy io.Reader

func init() {
	switch os.Getenv("VERIF_SYSTEM_ENTROPY") {
	case "fail":
		realSystemEntropy, crand.Reader = crand.Reader, brokenSystemEntropy{}
	case "zeros":
		realSystemEntropy, crand.Reader = crand.Reader, brokenSystemEntropy{zeros: true}
	}
}

// RestoreSystemEntropy ends the fault (no-op when it was not injected).
func RestoreSystemEntropy() {
	if realSystemEntropy != nil {
		crand.Reader, realSystemEntropy = realSystemEntropy, nil
	}
}

// SystemEntropyFor: the fault, if any, of the pool-world process whose
// first run index is jobFrom ("" = healthy).
func SystemEntropyFor(world string, jobFrom int) string {
	if world != "pool" || (jobFrom/13)%4 != 2 {
		return ""
	}
	if (jobFrom/13)%8 == 6 {
		return "zeros"
	}
	return "fail"
}
