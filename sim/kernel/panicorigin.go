package kernel

import "strings"

// LibraryPath is the import path prefix of the code under test.
const LibraryPath = "gitlab.com/yawning/secp256k1-voi"

// PanicOrigin inspects a stack captured (runtime/debug.Stack) in the deferred
// function that recovered a panic and returns the function in which the panic
// was raised - the first frame below the runtime's panic machinery - and
// whether that function belongs to the library under test.
func PanicOrigin(stack string) (fn string, inLibrary bool) {
	lines := strings.Split(stack, "\n")
	last := -1
	for i, l := range lines {
		if strings.HasPrefix(l, "panic(") {
			last = i
		}
	}
	if last < 0 {
		return "", false
	}
	for i := last + 1; i < len(lines); i++ {
		l := lines[i]
		if l == "" || l[0] == '\t' || l[0] == ' ' {
			continue // file:line of the previous frame
		}
		if strings.HasPrefix(l, "runtime.") || strings.HasPrefix(l, "runtime/") {
			continue // panicmem, sigpanic, goPanicIndex, ...
		}
		if j := strings.LastIndex(l, "("); j > 0 {
			l = l[:j]
		}
		return l, strings.HasPrefix(l, LibraryPath)
	}
	return "", false
}
