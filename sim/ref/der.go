package ref

import (
	"errors"
	"math/big"
)

var ErrDER = errors.New("ref: not a strict DER ECDSA-Sig-Value")

// derLen parses a DER definite length (short, or minimal long form).
func derLen(b []byte) (n int, rest []byte, ok bool) {
	if len(b) == 0 {
		return 0, nil, false
	}
	if b[0] < 0x80 {
		return int(b[0]), b[1:], true
	}
	k := int(b[0] & 0x7f)
	if k == 0 || k > 2 || len(b) < 1+k {
		return 0, nil, false
	}
	v := 0
	for _, c := range b[1 : 1+k] {
		v = v<<8 | int(c)
	}
	if v < 0x80 || (k == 2 && v < 0x100) {
		return 0, nil, false // not minimal
	}
	return v, b[1+k:], true
}

func derInt(b []byte) (v *big.Int, rest []byte, ok bool) {
	if len(b) < 2 || b[0] != 0x02 {
		return nil, nil, false
	}
	n, body, ok := derLen(b[1:])
	if !ok || n == 0 || n > len(body) {
		return nil, nil, false
	}
	c := body[:n]
	if c[0]&0x80 != 0 {
		return nil, nil, false // negative
	}
	if n > 1 && c[0] == 0 && c[1]&0x80 == 0 {
		return nil, nil, false // non-minimal
	}
	return new(big.Int).SetBytes(c), body[n:], true
}

// ParseDERSig strictly parses SEQUENCE { INTEGER r, INTEGER s } (no trailing
// data, minimal lengths, minimal non-negative integers).
func ParseDERSig(b []byte) (r, s *big.Int, err error) {
	if len(b) < 2 || b[0] != 0x30 {
		return nil, nil, ErrDER
	}
	n, body, ok := derLen(b[1:])
	if !ok || n != len(body) {
		return nil, nil, ErrDER
	}
	r, body, ok = derInt(body)
	if !ok {
		return nil, nil, ErrDER
	}
	s, body, ok = derInt(body)
	if !ok || len(body) != 0 {
		return nil, nil, ErrDER
	}
	return r, s, nil
}

func derIntBytes(v *big.Int) []byte {
	c := v.Bytes()
	if len(c) == 0 {
		c = []byte{0}
	}
	if c[0]&0x80 != 0 {
		c = append([]byte{0}, c...)
	}
	return append([]byte{0x02, byte(len(c))}, c...)
}

// BuildDERSig encodes (r, s) (both < 2^256) as strict DER.
func BuildDERSig(r, s *big.Int) []byte {
	body := append(derIntBytes(r), derIntBytes(s)...)
	return append([]byte{0x30, byte(len(body))}, body...)
}
