// Package ref holds the executable reference models: F_p / Z_n arithmetic,
// the affine secp256k1 group law, SEC 1 encodings, ECDSA, RFC 6979, BIP-340
// and the rejection sampler, all written from the specifications on top of
// math/big and the standard library's hashes.  Nothing here imports the
// library under test.
package ref

import (
	"errors"
	"math/big"
)

func hexInt(s string) *big.Int {
	v, ok := new(big.Int).SetString(s, 16)
	if !ok {
		panic("ref: bad hex constant")
	}
	return v
}

var (
	// SEC 2 v2, section 2.4.1.
	P  = hexInt("FFFFFFFFFFFFFFFFFFFFFFFFFFFFFFFFFFFFFFFFFFFFFFFFFFFFFFFEFFFFFC2F")
	N  = hexInt("FFFFFFFFFFFFFFFFFFFFFFFFFFFFFFFEBAAEDCE6AF48A03BBFD25E8CD0364141")
	Gx = hexInt("79BE667EF9DCBBAC55A06295CE870B07029BFCDB2DCE28D959F2815B16F81798")
	Gy = hexInt("483ADA7726A3C4655DA4FBFC0E1108A8FD17B448A68554199C47D08FFB10D4B8")

	HalfN = new(big.Int).Rsh(N, 1) // (n-1)/2

	big0 = big.NewInt(0)
	big1 = big.NewInt(1)
	big2 = big.NewInt(2)
	big3 = big.NewInt(3)
	big7 = big.NewInt(7)
)

// Pt is an affine point or the point at infinity.
type Pt struct {
	X, Y *big.Int
	Inf  bool
}

// Beta is a primitive cube root of unity in F_p: (Beta*x, y) is on the curve
// whenever (x, y) is (the three points that share one y).
var Beta = hexInt("7ae96a2b657c07106e64479eac3434e99cf0497512f58995c1396c28719501ee")

// Endo returns the endomorphism image (Beta*x, y) of p.
func (p Pt) Endo() Pt {
	if p.Inf {
		return p
	}
	x := new(big.Int).Mul(p.X, Beta)
	return Pt{X: x.Mod(x, P), Y: new(big.Int).Set(p.Y)}
}

// Infinity returns the identity.
func Infinity() Pt { return Pt{Inf: true} }

// G returns the generator.
func G() Pt { return Pt{X: new(big.Int).Set(Gx), Y: new(big.Int).Set(Gy)} }

// Clone deep-copies p.
func (p Pt) Clone() Pt {
	if p.Inf {
		return Pt{Inf: true}
	}
	return Pt{X: new(big.Int).Set(p.X), Y: new(big.Int).Set(p.Y)}
}

// Eq reports abstract-point equality.
func (p Pt) Eq(q Pt) bool {
	if p.Inf || q.Inf {
		return p.Inf == q.Inf
	}
	return p.X.Cmp(q.X) == 0 && p.Y.Cmp(q.Y) == 0
}

// OnCurve checks 0 <= x,y < p and y^2 = x^3 + 7.
func OnCurve(x, y *big.Int) bool {
	if x.Sign() < 0 || y.Sign() < 0 || x.Cmp(P) >= 0 || y.Cmp(P) >= 0 {
		return false
	}
	l := new(big.Int).Mul(y, y)
	l.Mod(l, P)
	r := new(big.Int).Mul(x, x)
	r.Mul(r, x)
	r.Add(r, big7)
	r.Mod(r, P)
	return l.Cmp(r) == 0
}

// Valid reports whether p is the identity or on the curve.
func (p Pt) Valid() bool { return p.Inf || OnCurve(p.X, p.Y) }

// Neg returns -p.
func (p Pt) Neg() Pt {
	if p.Inf {
		return p
	}
	y := new(big.Int).Sub(P, p.Y)
	y.Mod(y, P)
	return Pt{X: new(big.Int).Set(p.X), Y: y}
}

// Add is the textbook affine group law with all exceptional cases spelled out.
func (p Pt) Add(q Pt) Pt {
	if p.Inf {
		return q.Clone()
	}
	if q.Inf {
		return p.Clone()
	}
	var lam *big.Int
	if p.X.Cmp(q.X) == 0 {
		if p.Y.Cmp(q.Y) != 0 || p.Y.Sign() == 0 {
			return Infinity() // q = -p
		}
		// doubling: lambda = 3x^2 / 2y
		num := new(big.Int).Mul(p.X, p.X)
		num.Mul(num, big3)
		den := new(big.Int).Mul(p.Y, big2)
		den.ModInverse(den, P)
		lam = num.Mul(num, den)
	} else {
		num := new(big.Int).Sub(q.Y, p.Y)
		den := new(big.Int).Sub(q.X, p.X)
		den.Mod(den, P)
		den.ModInverse(den, P)
		lam = num.Mul(num, den)
	}
	lam.Mod(lam, P)
	x3 := new(big.Int).Mul(lam, lam)
	x3.Sub(x3, p.X)
	x3.Sub(x3, q.X)
	x3.Mod(x3, P)
	y3 := new(big.Int).Sub(p.X, x3)
	y3.Mul(y3, lam)
	y3.Sub(y3, p.Y)
	y3.Mod(y3, P)
	return Pt{X: x3, Y: y3}
}

// Double returns 2p.
func (p Pt) Double() Pt { return p.Add(p) }

// Mul returns k*p by left-to-right double-and-add (k is taken mod n).
func (p Pt) Mul(k *big.Int) Pt {
	k = new(big.Int).Mod(k, N)
	r := Infinity()
	for i := k.BitLen() - 1; i >= 0; i-- {
		r = r.Double()
		if k.Bit(i) == 1 {
			r = r.Add(p)
		}
	}
	return r
}

// BaseMul returns k*G.
func BaseMul(k *big.Int) Pt { return G().Mul(k) }

// IsYOdd reports the parity of y (false for the identity).
func (p Pt) IsYOdd() bool { return !p.Inf && p.Y.Bit(0) == 1 }

// Sqrt returns a square root of a mod p, if one exists (p = 3 mod 4).
func Sqrt(a *big.Int) (*big.Int, bool) {
	e := new(big.Int).Add(P, big1)
	e.Rsh(e, 2)
	r := new(big.Int).Exp(a, e, P)
	c := new(big.Int).Mul(r, r)
	c.Mod(c, P)
	if c.Cmp(new(big.Int).Mod(a, P)) != 0 {
		return nil, false
	}
	return r, true
}

// LiftX returns the point with the given x and y-parity.
func LiftX(x *big.Int, odd bool) (Pt, bool) {
	if x.Sign() < 0 || x.Cmp(P) >= 0 {
		return Pt{}, false
	}
	c := new(big.Int).Mul(x, x)
	c.Mul(c, x)
	c.Add(c, big7)
	c.Mod(c, P)
	y, ok := Sqrt(c)
	if !ok {
		return Pt{}, false
	}
	if (y.Bit(0) == 1) != odd {
		y.Sub(P, y)
		y.Mod(y, P)
	}
	return Pt{X: new(big.Int).Set(x), Y: y}, true
}

// ---------------------------------------------------------------- SEC 1 encodings

// I2OSP32 is the 32-byte big-endian encoding of v (0 <= v < 2^256).
func I2OSP32(v *big.Int) []byte {
	out := make([]byte, 32)
	v.FillBytes(out)
	return out
}

// OS2IP decodes big-endian bytes.
func OS2IP(b []byte) *big.Int { return new(big.Int).SetBytes(b) }

// Uncompressed returns the SEC 1 uncompressed (or infinity) encoding.
func (p Pt) Uncompressed() []byte {
	if p.Inf {
		return []byte{0}
	}
	out := make([]byte, 0, 65)
	out = append(out, 4)
	out = append(out, I2OSP32(p.X)...)
	out = append(out, I2OSP32(p.Y)...)
	return out
}

// Compressed returns the SEC 1 compressed (or infinity) encoding.
func (p Pt) Compressed() []byte {
	if p.Inf {
		return []byte{0}
	}
	out := make([]byte, 0, 33)
	if p.IsYOdd() {
		out = append(out, 3)
	} else {
		out = append(out, 2)
	}
	return append(out, I2OSP32(p.X)...)
}

var ErrDecode = errors.New("ref: invalid SEC 1 point encoding")

// Decode is the strict SEC 1 decoder (0x00 | 0x02/0x03 X | 0x04 X Y).
func Decode(b []byte) (Pt, error) {
	switch len(b) {
	case 1:
		if b[0] == 0 {
			return Infinity(), nil
		}
	case 33:
		if b[0] == 2 || b[0] == 3 {
			p, ok := LiftX(OS2IP(b[1:]), b[0] == 3)
			if ok {
				return p, nil
			}
		}
	case 65:
		if b[0] == 4 {
			x, y := OS2IP(b[1:33]), OS2IP(b[33:])
			if OnCurve(x, y) {
				return Pt{X: x, Y: y}, nil
			}
		}
	}
	return Pt{}, ErrDecode
}

// ValidEncodingOfSomePoint reports whether b is the (un)compressed/identity
// encoding of a valid point, without going through Decode's structure (used
// by validity invariants).
func ValidEncodingOfSomePoint(b []byte) bool {
	_, err := Decode(b)
	return err == nil
}

// ScalarCanonical reports whether the 32-byte string encodes a value < n.
func ScalarCanonical(b []byte) bool { return len(b) == 32 && OS2IP(b).Cmp(N) < 0 }

// ModN reduces v mod n.
func ModN(v *big.Int) *big.Int { return new(big.Int).Mod(v, N) }

// InvN returns v^-1 mod n (v != 0 mod n).
func InvN(v *big.Int) *big.Int { return new(big.Int).ModInverse(new(big.Int).Mod(v, N), N) }
