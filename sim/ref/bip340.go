package ref

import (
	"crypto/sha256"
	"math/big"
)

// TaggedHash is BIP-340's SHA256(SHA256(tag) || SHA256(tag) || data...).
func TaggedHash(tag string, parts ...[]byte) []byte {
	t := sha256.Sum256([]byte(tag))
	h := sha256.New()
	h.Write(t[:])
	h.Write(t[:])
	for _, p := range parts {
		h.Write(p)
	}
	return h.Sum(nil)
}

// BIP340PubKey returns bytes(P) for P = d'*G.
func BIP340PubKey(dPrime *big.Int) []byte {
	return I2OSP32(BaseMul(dPrime).X)
}

// BIP340Sign is the BIP-340 "Default Signing" algorithm.  ok is false when
// the algorithm says "fail" (d' out of range or k' = 0).
func BIP340Sign(dPrime *big.Int, aux []byte, msg []byte) ([]byte, bool) {
	if dPrime.Sign() <= 0 || dPrime.Cmp(N) >= 0 || len(aux) != 32 {
		return nil, false
	}
	Pp := BaseMul(dPrime)
	d := new(big.Int).Set(dPrime)
	if Pp.IsYOdd() {
		d.Sub(N, d)
	}
	pb := I2OSP32(Pp.X)
	t := TaggedHash("BIP0340/aux", aux)
	db := I2OSP32(d)
	for i := range t {
		t[i] ^= db[i]
	}
	rnd := TaggedHash("BIP0340/nonce", t, pb, msg)
	kp := ModN(OS2IP(rnd))
	if kp.Sign() == 0 {
		return nil, false
	}
	R := BaseMul(kp)
	k := kp
	if R.IsYOdd() {
		k = new(big.Int).Sub(N, kp)
	}
	rb := I2OSP32(R.X)
	e := ModN(OS2IP(TaggedHash("BIP0340/challenge", rb, pb, msg)))
	s := new(big.Int).Mul(e, d)
	s.Add(s, k)
	s.Mod(s, N)
	sig := append(rb, I2OSP32(s)...)
	return sig, true
}

// BIP340Verify is the BIP-340 verification algorithm.
func BIP340Verify(pk []byte, msg []byte, sig []byte) bool {
	if len(pk) != 32 || len(sig) != 64 {
		return false
	}
	Pp, ok := LiftX(OS2IP(pk), false)
	if !ok {
		return false
	}
	r := OS2IP(sig[:32])
	s := OS2IP(sig[32:])
	if r.Cmp(P) >= 0 || s.Cmp(N) >= 0 {
		return false
	}
	e := ModN(OS2IP(TaggedHash("BIP0340/challenge", sig[:32], pk, msg)))
	R := BaseMul(s).Add(Pp.Mul(new(big.Int).Sub(N, e)))
	if R.Inf || R.IsYOdd() {
		return false
	}
	return R.X.Cmp(r) == 0
}
