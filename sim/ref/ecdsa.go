package ref

import (
	"crypto/hmac"
	"crypto/sha256"
	"math/big"
)

// DigestToE implements SEC 1 v2 4.1.3 step 5 for a 256-bit n: the leftmost
// 32 bytes of the digest as an integer, reduced mod n.  ok is false when the
// digest is shorter than 32 bytes (the library's documented restriction).
func DigestToE(digest []byte) (*big.Int, bool) {
	if len(digest) < 32 {
		return nil, false
	}
	return ModN(OS2IP(digest[:32])), true
}

// ECDSASig is (r, s) with the recovery id.
type ECDSASig struct {
	R, S *big.Int
	V    byte
}

// ECDSASignWithK signs with an explicit nonce and applies the low-s rule,
// flipping bit 0 of the recovery id when s is negated.
func ECDSASignWithK(d, e, k *big.Int) (ECDSASig, bool) {
	if k.Sign() <= 0 || k.Cmp(N) >= 0 {
		return ECDSASig{}, false
	}
	R := BaseMul(k)
	if R.Inf {
		return ECDSASig{}, false
	}
	r := ModN(R.X)
	if r.Sign() == 0 {
		return ECDSASig{}, false
	}
	s := new(big.Int).Mul(r, d)
	s.Add(s, e)
	s.Mul(s, InvN(k))
	s.Mod(s, N)
	if s.Sign() == 0 {
		return ECDSASig{}, false
	}
	var v byte
	if R.X.Cmp(N) >= 0 {
		v |= 2
	}
	if R.IsYOdd() {
		v |= 1
	}
	if s.Cmp(HalfN) > 0 {
		s.Sub(N, s)
		v ^= 1
	}
	return ECDSASig{R: r, S: s, V: v}, true
}

// ECDSAVerify is SEC 1 v2 4.1.4.
func ECDSAVerify(Q Pt, e, r, s *big.Int) bool {
	if r.Sign() <= 0 || r.Cmp(N) >= 0 || s.Sign() <= 0 || s.Cmp(N) >= 0 {
		return false
	}
	if Q.Inf || !Q.Valid() {
		return false
	}
	sInv := InvN(s)
	u1 := new(big.Int).Mul(e, sInv)
	u1.Mod(u1, N)
	u2 := new(big.Int).Mul(r, sInv)
	u2.Mod(u2, N)
	R := BaseMul(u1).Add(Q.Mul(u2))
	if R.Inf {
		return false
	}
	return ModN(R.X).Cmp(r) == 0
}

// ECDSARecover is SEC 1 v2 4.1.6 with the candidate selected by v:
// bit 0 = parity of y(R), bit 1 = x(R) = r + n.
func ECDSARecover(e, r, s *big.Int, v byte) (Pt, bool) {
	if v > 3 || r.Sign() <= 0 || r.Cmp(N) >= 0 || s.Sign() <= 0 || s.Cmp(N) >= 0 {
		return Pt{}, false
	}
	x := new(big.Int).Set(r)
	if v&2 != 0 {
		x.Add(x, N)
	}
	if x.Cmp(P) >= 0 {
		return Pt{}, false
	}
	R, ok := LiftX(x, v&1 == 1)
	if !ok {
		return Pt{}, false
	}
	rInv := InvN(r)
	// Q = r^-1 (s R - e G)
	sR := R.Mul(s)
	eG := BaseMul(e).Neg()
	Q := sR.Add(eG).Mul(rInv)
	if Q.Inf {
		return Pt{}, false
	}
	return Q, true
}

// ExtractNonce returns k = s^-1 (e + r d) mod n: the nonce (up to sign,
// because of the low-s rule) that produced (r, s) under key d.
func ExtractNonce(d, e, r, s *big.Int) *big.Int {
	k := new(big.Int).Mul(r, d)
	k.Add(k, e)
	k.Mul(k, InvN(s))
	return k.Mod(k, N)
}

// ---------------------------------------------------------------- RFC 6979

// RFC6979 is the HMAC_DRBG of RFC 6979 section 3.2 with SHA-256 and
// qlen = 256.
type RFC6979 struct {
	k, v  []byte
	count int
}

func hmacSum(key []byte, parts ...[]byte) []byte {
	m := hmac.New(sha256.New, key)
	for _, p := range parts {
		m.Write(p)
	}
	return m.Sum(nil)
}

// NewRFC6979 runs steps a..g.  h1 is the message digest (any length >= 32;
// bits2octets takes the leftmost 256 bits and reduces mod q).
func NewRFC6979(x *big.Int, h1 []byte) *RFC6979 {
	e, ok := DigestToE(h1)
	if !ok {
		panic("ref: RFC 6979 digest too short")
	}
	xo := I2OSP32(x)
	ho := I2OSP32(e) // bits2octets(h1)
	g := &RFC6979{}
	g.v = make([]byte, 32)
	for i := range g.v {
		g.v[i] = 1
	}
	g.k = make([]byte, 32)
	g.k = hmacSum(g.k, g.v, []byte{0}, xo, ho) // d
	g.v = hmacSum(g.k, g.v)                    // e
	g.k = hmacSum(g.k, g.v, []byte{1}, xo, ho) // f
	g.v = hmacSum(g.k, g.v)                    // g
	return g
}

// Next returns the next candidate T (step h.2), performing the h.3 update
// (K = HMAC_K(V || 0x00), V = HMAC_K(V)) between candidates.
func (g *RFC6979) Next() []byte {
	if g.count > 0 {
		g.k = hmacSum(g.k, g.v, []byte{0})
		g.v = hmacSum(g.k, g.v)
	}
	g.count++
	g.v = hmacSum(g.k, g.v)
	return append([]byte(nil), g.v...)
}

// RFC6979Sign is deterministic ECDSA: the first candidate in [1,q-1] that
// gives r != 0 and s != 0 is used.  Returns the signature and the number of
// candidates consumed.
func RFC6979Sign(d *big.Int, digest []byte) (ECDSASig, int) {
	e, _ := DigestToE(digest)
	g := NewRFC6979(d, digest)
	for i := 1; ; i++ {
		k := OS2IP(g.Next())
		if sig, ok := ECDSASignWithK(d, e, k); ok {
			return sig, i
		}
		if i > 1000 {
			panic("ref: RFC 6979 did not terminate")
		}
	}
}

// ---------------------------------------------------------------- sampler model

// SampleModel is the specification of a rejection sampler over 32-byte
// candidates: the result is the first candidate in [1, n).  It returns the
// index of that candidate, or -1 if the list has none.
func SampleModel(cands [][]byte) (int, *big.Int) {
	for i, c := range cands {
		v := OS2IP(c)
		if v.Sign() > 0 && v.Cmp(N) < 0 {
			return i, v
		}
	}
	return -1, nil
}
