package ref

import (
	"bytes"
	"crypto/sha256"
	_ "embed"
	"encoding/csv"
	"encoding/hex"
	"encoding/json"
	"fmt"
	"math/big"
	"strings"
)

//go:embed testdata/secp256k1_rfc6979_sha256.csv
var rfc6979CSV []byte

//go:embed testdata/bip-0340-test-vectors.csv
var bip340CSV []byte

//go:embed testdata/ecdsa_secp256k1_sha256_test.json
var wycheproofECDSA []byte

// SelfTest pins the reference models to third-party data (copies of vector
// files shipped with the repository: bitcointalk RFC 6979 vectors, the
// official BIP-340 vectors, Wycheproof ECDSA) and to textbook identities.
// A failure means the MODEL is wrong: callers must exit 2, never report a
// violation.
func SelfTest() error {
	// --- group law sanity
	g := G()
	if !g.Valid() {
		return fmt.Errorf("G not on curve")
	}
	if !BaseMul(N).Inf {
		return fmt.Errorf("n*G != O")
	}
	g2 := g.Double()
	want2x := hexInt("C6047F9441ED7D6D3045406E95C07CD85C778E4B8CEF3CA7ABAC09B95C709EE5")
	if g2.X.Cmp(want2x) != 0 {
		return fmt.Errorf("2G mismatch")
	}
	g3 := g2.Add(g)
	want3x := hexInt("F9308A019258C31049344F85F89D5229B531C845836F99B08601F113BCE036F9")
	if g3.X.Cmp(want3x) != 0 || !BaseMul(big3).Eq(g3) {
		return fmt.Errorf("3G mismatch")
	}
	if !g.Add(g.Neg()).Inf {
		return fmt.Errorf("G + -G != O")
	}
	// the endomorphism: Beta != 1, Beta^3 = 1, (Beta*x, y) on the curve and of order n
	b3 := new(big.Int).Exp(Beta, big3, P)
	if Beta.Cmp(big1) == 0 || b3.Cmp(big1) != 0 || !g.Endo().Valid() || g.Endo().Eq(g) || !g.Endo().Endo().Endo().Eq(g) || !g.Endo().Mul(N).Inf {
		return fmt.Errorf("endomorphism constant wrong")
	}
	nm1 := new(big.Int).Sub(N, big1)
	if !BaseMul(nm1).Eq(g.Neg()) {
		return fmt.Errorf("(n-1)G != -G")
	}
	if p, err := Decode(g3.Compressed()); err != nil || !p.Eq(g3) {
		return fmt.Errorf("compressed round trip")
	}
	if p, err := Decode(g3.Uncompressed()); err != nil || !p.Eq(g3) {
		return fmt.Errorf("uncompressed round trip")
	}

	// --- RFC 6979 vectors
	rd := csv.NewReader(bytes.NewReader(rfc6979CSV))
	rd.Comment = '#'
	recs, err := rd.ReadAll()
	if err != nil {
		return err
	}
	if len(recs) < 10 {
		return fmt.Errorf("too few RFC 6979 vectors")
	}
	for i, v := range recs {
		d, ok := new(big.Int).SetString(v[0], 10)
		if !ok {
			return fmt.Errorf("rfc6979 vector %d: bad key", i)
		}
		h := sha256.Sum256([]byte(v[1]))
		sig, _ := RFC6979Sign(d, h[:])
		got := strings.ToUpper(hex.EncodeToString(BuildDERSig(sig.R, sig.S)))
		if got != v[2] {
			return fmt.Errorf("rfc6979 vector %d: model %s want %s", i, got, v[2])
		}
		e, _ := DigestToE(h[:])
		Q := BaseMul(d)
		if !ECDSAVerify(Q, e, sig.R, sig.S) {
			return fmt.Errorf("rfc6979 vector %d: model verify fails", i)
		}
		q2, ok := ECDSARecover(e, sig.R, sig.S, sig.V)
		if !ok || !q2.Eq(Q) {
			return fmt.Errorf("rfc6979 vector %d: model recover fails", i)
		}
		r2, s2, err := ParseDERSig(BuildDERSig(sig.R, sig.S))
		if err != nil || r2.Cmp(sig.R) != 0 || s2.Cmp(sig.S) != 0 {
			return fmt.Errorf("rfc6979 vector %d: DER round trip", i)
		}
	}

	// --- BIP-340 vectors
	rd = csv.NewReader(bytes.NewReader(bip340CSV))
	recs, err = rd.ReadAll()
	if err != nil {
		return err
	}
	nSign := 0
	for i, v := range recs[1:] {
		sk, _ := hex.DecodeString(v[1])
		pk, _ := hex.DecodeString(v[2])
		aux, _ := hex.DecodeString(v[3])
		msg, _ := hex.DecodeString(v[4])
		sig, _ := hex.DecodeString(v[5])
		want := v[6] == "TRUE"
		if got := BIP340Verify(pk, msg, sig); got != want {
			return fmt.Errorf("bip340 vector %d: model verify %v want %v", i, got, want)
		}
		if len(sk) == 32 {
			d := OS2IP(sk)
			if !bytes.Equal(BIP340PubKey(d), pk) {
				return fmt.Errorf("bip340 vector %d: model pubkey", i)
			}
			s, ok := BIP340Sign(d, aux, msg)
			if !ok || !bytes.Equal(s, sig) {
				return fmt.Errorf("bip340 vector %d: model sign", i)
			}
			nSign++
		}
	}
	if nSign < 4 {
		return fmt.Errorf("too few BIP-340 signing vectors")
	}

	// --- Wycheproof ECDSA (SHA-256): model accept == "valid"
	var wp struct {
		TestGroups []struct {
			PublicKey struct {
				Uncompressed string `json:"uncompressed"`
			} `json:"publicKey"`
			Tests []struct {
				TcID   int    `json:"tcId"`
				Msg    string `json:"msg"`
				Sig    string `json:"sig"`
				Result string `json:"result"`
			} `json:"tests"`
		} `json:"testGroups"`
	}
	if err := json.Unmarshal(wycheproofECDSA, &wp); err != nil {
		return err
	}
	nWp := 0
	for _, grp := range wp.TestGroups {
		qb, _ := hex.DecodeString(grp.PublicKey.Uncompressed)
		Q, err := Decode(qb)
		if err != nil {
			return fmt.Errorf("wycheproof: key does not decode")
		}
		for _, tc := range grp.Tests {
			if tc.Result != "valid" && tc.Result != "invalid" {
				continue
			}
			msg, _ := hex.DecodeString(tc.Msg)
			sig, _ := hex.DecodeString(tc.Sig)
			h := sha256.Sum256(msg)
			e, _ := DigestToE(h[:])
			got := false
			if r, s, err := ParseDERSig(sig); err == nil {
				got = ECDSAVerify(Q, e, r, s)
			}
			if got != (tc.Result == "valid") {
				return fmt.Errorf("wycheproof tcId %d: model %v, expected %s", tc.TcID, got, tc.Result)
			}
			nWp++
		}
	}
	if nWp < 400 {
		return fmt.Errorf("too few Wycheproof vectors (%d)", nWp)
	}

	// --- sampler model
	zero := make([]byte, 32)
	if i, _ := SampleModel([][]byte{zero, I2OSP32(N), I2OSP32(nm1)}); i != 2 {
		return fmt.Errorf("sampler model")
	}
	return nil
}
