package pool

import (
	"bytes"
	"fmt"
	"math/big"
	"strings"

	secp256k1 "gitlab.com/yawning/secp256k1-voi"
	"gitlab.com/yawning/secp256k1-voi/secec"
	"gitlab.com/yawning/secp256k1-voi/secec/bitcoin"

	"verif/sim/kernel"
	"verif/sim/ref"
)

type keyEntry struct {
	kind  string // priv | pub | spriv | spub
	how   string
	priv  *secec.PrivateKey
	pub   *secec.PublicKey
	spriv *bitcoin.SchnorrPrivateKey
	spub  *bitcoin.SchnorrPublicKey
	cheap string // observables at construction
	full  string
	born  int
	first []string // what the very first call on the object returned ("name=value")
}

// bufEntry is a caller-owned byte slice that was supplied to a constructor
// or handed out by an accessor.
type bufEntry struct {
	b    []byte
	role string // supplied:<ctor> | returned:<accessor>
	key  int
}

var (
	fixedDigest = bytes.Repeat([]byte{0x42}, 32)
	fixedMsg    = []byte("pool world fixed message")
	fixedPeer   = func() *secec.PublicKey {
		k, err := secec.NewPublicKey(ref.BaseMul(big.NewInt(7)).Compressed())
		if err != nil {
			panic(err)
		}
		return k
	}()
	fixedSigR       = scalarFromInt(big.NewInt(1234567))
	fixedSigS       = scalarFromInt(big.NewInt(7654321))
	fixedSchnorrSig = bytes.Repeat([]byte{0x11}, 64)
)

func zeroAux() *kernel.Device {
	return kernel.NewDevice(kernel.DevCfg{Payload: kernel.PayConst, Const: 0, ErrAt: -1})
}

// observe computes the observables of a key; full adds behaviour
// (signature, shared secret, verdicts).  Inconsistencies between a key's
// cached encodings and the objects it hands out are reported.
func (w *World) observe(i int, k *keyEntry, full bool, when string) string {
	var parts []string
	// Every value an accessor hands out is recorded and then - when the run's
	// configuration says so - overwritten by the caller at once (bytes
	// flipped, scalars zeroed, points replaced): the observation itself is a
	// caller-mutation fault, so that an accessor which returns internal
	// state on its first call, or only sometimes, is exposed by the very
	// next observation.
	scribbled := 0
	add := func(name string, b []byte) {
		parts = append(parts, name+"="+hx(b))
		if w.scribbleObs {
			for j := range b {
				b[j] ^= 0xff
			}
			scribbled++
		}
	}
	scalarBytes := func(s *secp256k1.Scalar) []byte {
		b := s.Bytes()
		if w.scribbleObs {
			s.Zero()
			scribbled++
		}
		return b
	}
	killPoint := func(p *secp256k1.Point) {
		if w.scribbleObs {
			p.Identity()
			scribbled++
		}
	}
	po := protect(func() {
		switch k.kind {
		case "priv":
			kb, sb := k.priv.Bytes(), scalarBytes(k.priv.Scalar())
			if !bytes.Equal(kb, sb) {
				w.r.Violate("C18", "key-cache-inconsistent", "PrivateKey.Bytes/Scalar", w.step, "%s: key %d (%s): Bytes()=%x but Scalar().Bytes()=%x", when, i, k.how, kb, sb)
			}
			add("Bytes", kb)
			add("Scalar", sb)
			pub := k.priv.PublicKey()
			add("Pub", pub.Bytes())
			add("PubC", pub.CompressedBytes())
			pt := pub.Point()
			add("PubPt", pt.UncompressedBytes())
			killPoint(pt)
			if full {
				add("ASN1", pub.ASN1Bytes())
				sig, err := k.priv.Sign(secec.RFC6979SHA256(), fixedDigest, nil)
				parts = append(parts, fmt.Sprintf("Sig=%x/%v", sig, err != nil))
				// the hedged nonce is a function of the key too
				hs, herr := k.priv.Sign(zeroAux(), fixedDigest, nil)
				parts = append(parts, fmt.Sprintf("SigHedged=%x/%v", hs, herr != nil))
				ss, err := k.priv.ECDH(fixedPeer)
				parts = append(parts, fmt.Sprintf("ECDH=%x/%v", ss, err != nil))
				if pk, ok := k.priv.Public().(*secec.PublicKey); ok {
					add("PublicIface", pk.Bytes())
				}
			}
		case "pub":
			b, c, pt := k.pub.Bytes(), k.pub.CompressedBytes(), k.pub.Point()
			ptU, ptC := pt.UncompressedBytes(), pt.CompressedBytes()
			if !bytes.Equal(b, ptU) || !bytes.Equal(c, ptC) {
				w.r.Violate("C18", "key-cache-inconsistent", "PublicKey.Bytes/Point", w.step, "%s: key %d (%s): cached encodings %x / %x differ from the encodings of Point() %x", when, i, k.how, b, c, ptU)
			}
			add("Bytes", b)
			add("Compressed", c)
			add("Pt", ptU)
			killPoint(pt)
			if full {
				add("ASN1", k.pub.ASN1Bytes())
				parts = append(parts, fmt.Sprintf("VerifyRaw=%v", k.pub.VerifyRaw(fixedDigest, fixedSigR, fixedSigS)))
			}
		case "spriv":
			kb, sb := k.spriv.Bytes(), scalarBytes(k.spriv.Scalar())
			if !bytes.Equal(kb, sb) {
				w.r.Violate("C18", "key-cache-inconsistent", "SchnorrPrivateKey.Bytes/Scalar", w.step, "%s: key %d (%s): Bytes()=%x but Scalar().Bytes()=%x", when, i, k.how, kb, sb)
			}
			add("Bytes", kb)
			add("Scalar", sb)
			pub := k.spriv.PublicKey()
			add("Pub", pub.Bytes())
			pt := pub.Point()
			add("PubPt", pt.UncompressedBytes())
			killPoint(pt)
			if full {
				sig, err := k.spriv.Sign(zeroAux(), fixedMsg, nil)
				parts = append(parts, fmt.Sprintf("Sig=%x/%v", sig, err != nil))
			}
		case "spub":
			b, pt := k.spub.Bytes(), k.spub.Point()
			x, _ := pt.XBytes()
			if !bytes.Equal(b, x) || pt.IsYOdd() != 0 {
				w.r.Violate("C18", "key-cache-inconsistent", "SchnorrPublicKey.Bytes/Point", w.step, "%s: key %d (%s): Bytes()=%x, Point()=%x (must be the even-y point with that x)", when, i, k.how, b, pt.UncompressedBytes())
			}
			add("Bytes", b)
			add("Pt", pt.UncompressedBytes())
			killPoint(pt)
			if full {
				parts = append(parts, fmt.Sprintf("Verify=%v", k.spub.Verify(fixedMsg, fixedSchnorrSig)))
			}
		}
	})
	if scribbled > 0 {
		w.r.Res.Faults["caller_overwrites_observed_value"] += scribbled
	}
	if po.panicked {
		return "panic:" + po.msg
	}
	return strings.Join(parts, " ")
}

// validKey: C18 — key objects only ever hold valid keys.
func (w *World) validKey(k *keyEntry) {
	po := protect(func() {
		switch k.kind {
		case "priv":
			b := k.priv.Bytes()
			v := ref.OS2IP(b)
			if v.Sign() == 0 || v.Cmp(ref.N) >= 0 {
				w.r.Violate("C18", "invalid-key-object", "PrivateKey", w.step, "%s produced a private key holding %x (not in [1,n))", k.how, b)
			}
		case "spriv":
			b := k.spriv.Bytes()
			v := ref.OS2IP(b)
			if v.Sign() == 0 || v.Cmp(ref.N) >= 0 {
				w.r.Violate("C18", "invalid-key-object", "SchnorrPrivateKey", w.step, "%s produced a private key holding %x (not in [1,n))", k.how, b)
			}
		case "pub":
			b := k.pub.Bytes()
			q, err := ref.Decode(b)
			if err != nil || q.Inf || len(b) != 65 {
				w.r.Violate("C18", "invalid-key-object", "PublicKey", w.step, "%s produced a public key holding %x (not a non-identity curve point)", k.how, b)
			}
		case "spub":
			b := k.spub.Bytes()
			if _, ok := ref.LiftX(ref.OS2IP(b), false); !ok || len(b) != 32 {
				w.r.Violate("C18", "invalid-key-object", "SchnorrPublicKey", w.step, "%s produced an x-only key %x that does not lift to the curve", k.how, b)
			}
		}
	})
	if po.panicked {
		w.r.Violate("C18", "invalid-key-object", k.kind, w.step, "%s produced a key whose accessors panic: %s", k.how, po.msg)
	}
}

func (w *World) addKey(k *keyEntry) int {
	k.born = w.step
	w.validKey(k)
	idx := -1
	n := 0
	for _, e := range w.keys {
		if e.kind == k.kind {
			n++
		}
	}
	if n >= maxKeys {
		// replace the oldest of that kind
		for i, e := range w.keys {
			if e.kind == k.kind {
				idx = i
				break
			}
		}
		// buffers linked to the replaced key are forgotten
		var kept []*bufEntry
		for _, b := range w.bufs {
			if b.key != idx {
				kept = append(kept, b)
			}
		}
		w.bufs = kept
		w.keys[idx] = k
	} else {
		w.keys = append(w.keys, k)
		idx = len(w.keys) - 1
	}
	k.cheap = w.observe(idx, k, false, "construction")
	k.full = w.observe(idx, k, true, "construction")
	// what the object answered to its very first call must be what it
	// answers now: which accessor a caller happens to use first is not
	// supposed to matter
	parts := strings.Split(k.full, " ")
	for _, f := range k.first {
		name := f[:strings.IndexByte(f, '=')+1]
		for _, p := range parts {
			if strings.HasPrefix(p, name) && p != f {
				w.r.Violate("C18", "first-call-differs", k.kind+":"+strings.TrimSuffix(name, "="), w.step, "key %d (%s): the first call ever made on the object returned %s, the same accessor now returns %s", idx, k.how, f, p)
			}
		}
	}
	w.r.Probe("keys_built_" + k.kind)
	return idx
}

func (w *World) checkKeys(full bool, when string) {
	for i, k := range w.keys {
		var now, was string
		if full {
			now, was = w.observe(i, k, true, when), k.full
		} else {
			now, was = w.observe(i, k, false, when), k.cheap
		}
		if now != was {
			w.r.Violate("C18", "key-mutated", k.kind+":"+k.how, w.step, "after %s: key %d (%s, built at step %d) changed its behaviour:\n  at construction: %s\n  now:             %s", when, i, k.how, k.born, was, now)
			if full {
				k.full = now
			} else {
				k.cheap = now
			}
		}
	}
}

func (w *World) checkKeysCheap(when string) { w.checkKeys(false, when) }
func (w *World) checkKeysFull(when string) {
	w.checkKeys(false, when)
	w.checkKeys(true, when)
}

func (w *World) keysOfKind(kind string) []int {
	var out []int
	for i, k := range w.keys {
		if k.kind == kind {
			out = append(out, i)
		}
	}
	return out
}

func (w *World) trackBuf(b []byte, role string, key int) {
	if len(w.bufs) > 32 {
		w.bufs = w.bufs[1:]
	}
	w.bufs = append(w.bufs, &bufEntry{b: b, role: role, key: key})
}

// ---------------------------------------------------------------- constructors

type consOut struct {
	desc        string
	k           *keyEntry
	err         error
	po          callOut
	supplied    []byte // the caller's buffer, if any
	orig        []byte
	mustFail    string // non-empty: the constructor must fail, for this reason
	expectPanic bool
	// C14: what the model says a derived Schnorr key must expose
	modelPt *ref.Pt  // the curve point the x-only key was derived from
	modelD  *big.Int // the private scalar the Schnorr private key was derived from
	// after the key has been registered: parse this many other, pairwise
	// different keys of the same kind (whatever the library remembers about
	// recently parsed keys is pushed out while this object is still in use)
	burstAfter int
	burstKind  string
}

func (w *World) opKeyConstruct() {
	c := &consOut{}
	kind := w.t.Choose("ops", "kc.kind", 15)
	switch kind {
	case 0, 5: // from private-key bytes
		src, canonical := w.genScalarBytes("kc.priv")
		b := src[:]
		if w.t.Chance("ops", "kc.badlen", 1, 8) {
			b = b[:[]int{0, 31, 16}[w.t.Choose("ops", "kc.len", 3)]]
			c.mustFail = "wrong length"
		} else if !canonical {
			c.mustFail = "scalar >= n"
		} else if ref.OS2IP(b).Sign() == 0 {
			c.mustFail = "zero scalar"
		}
		c.supplied, c.orig = b, append([]byte(nil), b...)
		if kind == 0 {
			c.desc = fmt.Sprintf("NewPrivateKey(%x)", b)
			c.po = protect(func() {
				k, err := secec.NewPrivateKey(b)
				c.err = err
				if k != nil {
					c.k = &keyEntry{kind: "priv", how: "NewPrivateKey", priv: k}
				}
			})
		} else {
			c.desc = fmt.Sprintf("NewSchnorrPrivateKey(%x)", b)
			if c.mustFail == "" {
				c.modelD = ref.OS2IP(b)
			}
			c.po = protect(func() {
				k, err := bitcoin.NewSchnorrPrivateKey(b)
				c.err = err
				if k != nil {
					c.k = &keyEntry{kind: "spriv", how: "NewSchnorrPrivateKey", spriv: k}
				}
			})
		}
	case 1: // from a pool scalar (the scalar stays in the pool and is mutated later)
		s := w.pickScalar("kc.s")
		sb := w.scalars[s].Bytes()
		if ref.OS2IP(sb).Sign() == 0 {
			c.mustFail = "zero scalar"
		}
		c.desc = fmt.Sprintf("NewPrivateKeyFromScalar(s%d=%x)", s, sb)
		c.po = protect(func() {
			k, err := secec.NewPrivateKeyFromScalar(w.scalars[s])
			c.err = err
			if k != nil {
				c.k = &keyEntry{kind: "priv", how: "NewPrivateKeyFromScalar", priv: k}
			}
		})
		if !bytes.Equal(w.scalars[s].Bytes(), sb) {
			w.r.Violate("C18", "operand-modified", "NewPrivateKeyFromScalar", w.step, "%s modified the supplied scalar", c.desc)
		}
		w.r.Fault("supplied_object_stays_in_pool")
	case 2: // from public-key bytes
		enc, mk := w.genEncoding("kc.pub")
		if len(enc) == 1 && enc[0] == 0 {
			c.mustFail = "identity"
		}
		c.supplied, c.orig = enc, append([]byte(nil), enc...)
		c.desc = fmt.Sprintf("NewPublicKey(%x) [%s]", enc, mk)
		c.po = protect(func() {
			k, err := secec.NewPublicKey(enc)
			c.err = err
			if k != nil {
				c.k = &keyEntry{kind: "pub", how: "NewPublicKey", pub: k}
			}
		})
	case 3, 8: // from a pool point
		a := w.pickPoint("kc.p")
		c.expectPanic = !w.init[a]
		if w.init[a] && w.mp[a].Inf {
			c.mustFail = "identity"
		}
		was := *w.points[a]
		if kind == 3 {
			c.desc = fmt.Sprintf("NewPublicKeyFromPoint(p%d)", a)
			c.po = protect(func() {
				k, err := secec.NewPublicKeyFromPoint(w.points[a])
				c.err = err
				if k != nil {
					c.k = &keyEntry{kind: "pub", how: "NewPublicKeyFromPoint", pub: k}
				}
			})
		} else {
			c.desc = fmt.Sprintf("NewSchnorrPublicKeyFromPoint(p%d)", a)
			if w.init[a] && !w.mp[a].Inf {
				m := w.mp[a]
				c.modelPt = &m
			}
			c.po = protect(func() {
				k, err := bitcoin.NewSchnorrPublicKeyFromPoint(w.points[a])
				c.err = err
				if k != nil {
					c.k = &keyEntry{kind: "spub", how: "NewSchnorrPublicKeyFromPoint", spub: k}
				}
			})
		}
		if w.operandChanged(&was, w.points[a]) {
			w.r.Violate("C18", "operand-modified", "KeyFromPoint", w.step, "%s modified the supplied point", c.desc)
		}
		if c.expectPanic {
			w.r.Probe("uninit_operand:" + c.desc[:strings.IndexByte(c.desc, '(')])
			w.r.Fault("uninitialised_operand")
		}
		w.r.Fault("supplied_object_stays_in_pool")
	case 4: // ASN.1 SubjectPublicKeyInfo
		pubs := w.keysOfKind("pub")
		var der []byte
		if len(pubs) > 0 && w.t.Bool("ops", "kc.asn1src") {
			der = w.keys[pubs[w.t.Choose("ops", "kc.asn1key", len(pubs))]].pub.ASN1Bytes()
		} else {
			k, _ := secec.NewPublicKey(ref.BaseMul(big.NewInt(int64(2 + w.t.Choose("ops", "kc.asn1k", 500)))).Uncompressed())
			der = k.ASN1Bytes()
		}
		switch w.t.Choose("ops", "kc.asn1mut", 6) {
		case 1:
			der[len(der)-1] ^= 1 // y off by one: off-curve
		case 2:
			der = der[:len(der)-1]
		case 3:
			der = append(der, 0)
		case 4:
			der[w.t.Choose("ops", "kc.asn1pos", len(der))] ^= byte(1 + w.t.Choose("ops", "kc.asn1bit", 255))
		}
		c.supplied, c.orig = der, append([]byte(nil), der...)
		c.desc = fmt.Sprintf("ParseASN1PublicKey(%x)", der)
		c.po = protect(func() {
			k, err := secec.ParseASN1PublicKey(der)
			c.err = err
			if k != nil {
				c.k = &keyEntry{kind: "pub", how: "ParseASN1PublicKey", pub: k}
			}
		})
	case 6: // Schnorr private from an ECDSA private key object
		privs := w.keysOfKind("priv")
		if len(privs) == 0 {
			w.r.Hist("%d (no private key to derive from)", w.step)
			return
		}
		src := privs[w.t.Choose("ops", "kc.from", len(privs))]
		c.desc = fmt.Sprintf("NewSchnorrPrivateKeyFromECDSA(key%d)", src)
		c.po = protect(func() {
			c.modelD = ref.OS2IP(w.keys[src].priv.Bytes())
			k := bitcoin.NewSchnorrPrivateKeyFromECDSA(w.keys[src].priv)
			if k != nil {
				c.k = &keyEntry{kind: "spriv", how: "NewSchnorrPrivateKeyFromECDSA", spriv: k}
			}
		})
	case 7: // x-only public key bytes
		var xb []byte
		switch w.t.Choose("ops", "kc.xkind", 6) {
		case 0, 1, 2:
			xb = ref.I2OSP32(ref.BaseMul(big.NewInt(int64(1 + w.t.Choose("ops", "kc.xk", 1000)))).X)
		case 3: // x >= p
			xb = ref.I2OSP32(new(big.Int).Add(ref.P, big.NewInt(int64(w.t.Choose("ops", "kc.xov", 1000)))))
			c.mustFail = "x >= p"
		case 4: // not on the curve
			x := big.NewInt(int64(w.t.Choose("ops", "kc.xsmall", 1000)))
			for {
				if _, ok := ref.LiftX(x, false); !ok {
					break
				}
				x.Add(x, big.NewInt(1))
			}
			xb = ref.I2OSP32(x)
			c.mustFail = "x not on curve"
		case 5:
			xb = w.t.Bytes("ops", "kc.xshort", []int{0, 31, 33}[w.t.Choose("ops", "kc.xlen", 3)])
			c.mustFail = "wrong length"
		}
		c.supplied, c.orig = xb, append([]byte(nil), xb...)
		c.desc = fmt.Sprintf("NewSchnorrPublicKey(%x)", xb)
		if c.mustFail == "" {
			if m, ok := ref.LiftX(ref.OS2IP(xb), false); ok {
				c.modelPt = &m
			}
		}
		c.po = protect(func() {
			k, err := bitcoin.NewSchnorrPublicKey(xb)
			c.err = err
			if k != nil {
				c.k = &keyEntry{kind: "spub", how: "NewSchnorrPublicKey", spub: k}
			}
		})
	case 9: // Schnorr public from an ECDSA public key object
		pubs := w.keysOfKind("pub")
		if len(pubs) == 0 {
			w.r.Hist("%d (no public key to derive from)", w.step)
			return
		}
		src := pubs[w.t.Choose("ops", "kc.from", len(pubs))]
		c.desc = fmt.Sprintf("NewSchnorrPublicKeyFromECDSA(key%d)", src)
		c.po = protect(func() {
			if m, derr := ref.Decode(w.keys[src].pub.Bytes()); derr == nil && !m.Inf {
				c.modelPt = &m
			}
			k := bitcoin.NewSchnorrPublicKeyFromECDSA(w.keys[src].pub)
			if k != nil {
				c.k = &keyEntry{kind: "spub", how: "NewSchnorrPublicKeyFromECDSA", spub: k}
			}
		})
	case 11: // recovered from a signature made by a private key of the pool
		privs := w.keysOfKind("priv")
		if len(privs) == 0 {
			w.r.Hist("%d (no private key to sign with)", w.step)
			return
		}
		src := privs[w.t.Choose("ops", "kc.from", len(privs))]
		digest := append([]byte(nil), fixedDigest...)
		digest[31] = byte(w.t.Choose("ops", "kc.rdigest", 256))
		var r, sg *secp256k1.Scalar
		var v byte
		var serr error
		po := protect(func() { r, sg, v, serr = w.keys[src].priv.SignRaw(secec.RFC6979SHA256(), digest) })
		if po.panicked || serr != nil {
			w.r.Hist("%d (key%d cannot sign: %v)", w.step, src, serr)
			return
		}
		switch w.t.Choose("ops", "kc.rv", 6) {
		case 4:
			v ^= 1 // some other key (or an error): still a valid object or none
		case 5:
			v += 4
			c.mustFail = "recovery id out of range"
		}
		c.desc = fmt.Sprintf("RecoverPublicKey(%x,r=%x,s=%x,v=%d) [signed by key%d]", digest, r.Bytes(), sg.Bytes(), v, src)
		c.po = protect(func() {
			k, err := secec.RecoverPublicKey(digest, r, sg, v)
			c.err = err
			if k != nil {
				c.k = &keyEntry{kind: "pub", how: "RecoverPublicKey", pub: k}
			}
		})
	case 13, 14: // the same encoding parsed twice (the second object is kept), then a burst of other keys
		k := int64(1 + w.t.Choose("ops", "kc.bk", 1000))
		m := ref.BaseMul(big.NewInt(k))
		c.burstAfter = []int{3, 15, 16, 17, 40}[w.t.Choose("ops", "kc.burst", 5)]
		if kind == 13 {
			xb := ref.I2OSP32(m.X)
			c.burstKind = "x-only"
			c.supplied, c.orig = xb, append([]byte(nil), xb...)
			c.modelPt = &m
			c.desc = fmt.Sprintf("NewSchnorrPublicKey(%x) [second parse of these bytes; then %d other keys]", xb, c.burstAfter)
			c.po = protect(func() {
				_, _ = bitcoin.NewSchnorrPublicKey(append([]byte(nil), xb...))
				k, err := bitcoin.NewSchnorrPublicKey(xb)
				c.err = err
				if k != nil {
					c.k = &keyEntry{kind: "spub", how: "NewSchnorrPublicKey(twice)", spub: k}
				}
			})
		} else {
			enc := m.Compressed()
			c.burstKind = "compressed"
			c.supplied, c.orig = enc, append([]byte(nil), enc...)
			c.desc = fmt.Sprintf("NewPublicKey(%x) [second parse of these bytes; then %d other keys]", enc, c.burstAfter)
			c.po = protect(func() {
				_, _ = secec.NewPublicKey(append([]byte(nil), enc...))
				k, err := secec.NewPublicKey(enc)
				c.err = err
				if k != nil {
					c.k = &keyEntry{kind: "pub", how: "NewPublicKey(twice)", pub: k}
				}
			})
		}
		w.r.Fault("burst_of_key_parses")
	case 12: // crafted so that the recovered point is the point at infinity: s*R = e*G
		e := big.NewInt(int64(1 + w.t.Choose("ops", "kc.re", 5000)))
		bigR := ref.BaseMul(e)
		digest := ref.I2OSP32(e)
		r := scalarFromInt(ref.ModN(bigR.X))
		sg := scalarFromInt(big.NewInt(1))
		v := byte(bigR.Y.Bit(0))
		c.mustFail = "recovered point is the point at infinity"
		c.desc = fmt.Sprintf("RecoverPublicKey(%x,r=x(%d*G),s=1,v=%d) [Q = infinity]", digest, e, v)
		c.po = protect(func() {
			k, err := secec.RecoverPublicKey(digest, r, sg, v)
			c.err = err
			if k != nil {
				c.k = &keyEntry{kind: "pub", how: "RecoverPublicKey(crafted)", pub: k}
			}
		})
	case 10: // the public half of a private key, as its own entry
		privs := w.keysOfKind("priv")
		if len(privs) == 0 {
			w.r.Hist("%d (no private key)", w.step)
			return
		}
		src := privs[w.t.Choose("ops", "kc.from", len(privs))]
		c.desc = fmt.Sprintf("key%d.PublicKey()", src)
		c.po = protect(func() {
			c.k = &keyEntry{kind: "pub", how: "PrivateKey.PublicKey", pub: w.keys[src].priv.PublicKey()}
		})
	}

	out := "ok"
	switch {
	case c.po.panicked:
		out = "panic"
	case c.err != nil:
		out = "error"
	}
	w.r.Hist("%d %s -> %s", w.step, c.desc, out)
	name := c.desc[:strings.IndexByte(c.desc, '(')]
	if c.supplied != nil && !bytes.Equal(c.supplied, c.orig) {
		w.r.Violate("C18", "operand-modified", name, w.step, "%s modified the caller's buffer", c.desc)
	}
	if c.expectPanic {
		if !c.po.panicked {
			w.r.Violate("C18", "uninitialised-operand-accepted", name, w.step, "%s on an uninitialised point returned instead of panicking", c.desc)
		}
		return
	}
	if c.po.panicked {
		w.r.Probe("unexpected_panic_both:" + name)
		return
	}
	if c.err != nil {
		w.r.Fault("failing_key_constructor")
		if c.k != nil {
			w.r.Violate("C18", "object-returned-with-error", name, w.step, "%s returned an error together with a key object", c.desc)
		}
		return
	}
	if c.k == nil {
		w.r.Violate("C18", "nil-without-error", name, w.step, "%s returned (nil, nil)", c.desc)
		return
	}
	if c.mustFail != "" {
		// validKey (inside addKey) reports the invalid object that escaped
		w.r.Probe("constructor_accepted_input_that_must_fail")
	}
	w.firstTouch(c)
	w.checkSchnorrDerivation(c)
	idx := w.addKey(c.k)
	if c.supplied != nil {
		w.trackBuf(c.supplied, "supplied:"+name, idx)
	}
	if c.burstAfter > 0 {
		// other keys, made with the library itself (inputs only; whether they
		// are right is not this step's business)
		base := 5000 + w.t.Choose("ops", "kc.burstbase", 100000)
		po := protect(func() {
			for i := 0; i < c.burstAfter; i++ {
				pt := secp256k1.NewIdentityPoint().ScalarBaseMult(scalarFromInt(big.NewInt(int64(base + i))))
				if c.burstKind == "x-only" {
					xb, _ := pt.XBytes()
					_, _ = bitcoin.NewSchnorrPublicKey(xb)
				} else {
					_, _ = secec.NewPublicKey(pt.CompressedBytes())
				}
			}
		})
		w.r.Hist("%d   ... %d other %s keys parsed (panic=%v)", w.step, c.burstAfter, c.burstKind, po.panicked)
	}
}

// firstTouch makes the first call on a new key object one that the standard
// observation makes late or not at all (lazily derived fields, deferred
// normalisation: what the first call sees must already be the final value).
func (w *World) firstTouch(c *consOut) {
	k := c.k
	rec := func(name string, b []byte) { k.first = append(k.first, name+"="+hx(b)) }
	name := c.desc[:strings.IndexByte(c.desc, '(')]
	what := w.t.Choose("ops", "kc.first", 5)
	if what == 0 {
		return
	}
	w.r.Fault("unusual_first_call_on_new_key")
	po := protect(func() {
		switch k.kind {
		case "priv":
			switch what {
			case 1:
				pk, ok := k.priv.Public().(*secec.PublicKey)
				if !ok || pk == nil {
					w.r.Violate("C18", "nil-without-error", "PrivateKey.Public", w.step, "%s: Public(), called first on the new key, returned %v (a nil or foreign public key)", c.desc, k.priv.Public())
					return
				}
				rec("Pub", pk.Bytes())
			case 2:
				sig, err := k.priv.Sign(secec.RFC6979SHA256(), fixedDigest, nil)
				k.first = append(k.first, fmt.Sprintf("Sig=%x/%v", sig, err != nil))
			case 3:
				ss, err := k.priv.ECDH(fixedPeer)
				k.first = append(k.first, fmt.Sprintf("ECDH=%x/%v", ss, err != nil))
			case 4:
				rec("PubPt", k.priv.PublicKey().Point().UncompressedBytes())
			}
		case "pub":
			switch what {
			case 1:
				rec("Pt", k.pub.Point().UncompressedBytes())
			case 2:
				rec("ASN1", k.pub.ASN1Bytes())
			case 3:
				k.first = append(k.first, fmt.Sprintf("VerifyRaw=%v", k.pub.VerifyRaw(fixedDigest, fixedSigR, fixedSigS)))
			case 4:
				rec("Compressed", k.pub.CompressedBytes())
			}
		case "spriv":
			switch what {
			case 1, 2:
				sig, err := k.spriv.Sign(zeroAux(), fixedMsg, nil)
				k.first = append(k.first, fmt.Sprintf("Sig=%x/%v", sig, err != nil))
			case 3:
				if pk, ok := k.spriv.Public().(*bitcoin.SchnorrPublicKey); ok && pk != nil {
					rec("Pub", pk.Bytes())
				} else {
					w.r.Violate("C18", "nil-without-error", "SchnorrPrivateKey.Public", w.step, "%s: Public(), called first on the new key, returned a nil or foreign public key", c.desc)
				}
			case 4:
				rec("PubPt", k.spriv.PublicKey().Point().UncompressedBytes())
			}
		case "spub":
			switch what {
			case 1, 2:
				pt := k.spub.Point()
				rec("Pt", pt.UncompressedBytes())
				if c.modelPt != nil {
					even := *c.modelPt
					if even.IsYOdd() {
						even = even.Neg()
					}
					if got := pt.UncompressedBytes(); !bytes.Equal(got, even.Uncompressed()) {
						w.r.Violate("C14", "schnorr-key-point", name, w.step, "%s: Point(), called first on the new key, is %x; the even-y point with the source's x is %x", c.desc, got, even.Uncompressed())
					}
				}
			case 3:
				k.first = append(k.first, fmt.Sprintf("Verify=%v", k.spub.Verify(fixedMsg, fixedSchnorrSig)))
			case 4:
				k.first = append(k.first, fmt.Sprintf("Equal=%v", k.spub.Equal(k.spub)))
			}
		}
	})
	if po.panicked {
		w.r.Violate("C18", "first-call-panics", k.kind+":"+fmt.Sprint(what), w.step, "%s: the first call made on the new key object panicked: %s", c.desc, po.msg)
	}
}

// checkSchnorrDerivation: C14 - a Schnorr key derived from any ECDSA key,
// byte string or curve point (whatever its projective representative and
// the history that produced it) exposes the even-y point, its x coordinate,
// and a signing scalar consistent with that point.
func (w *World) checkSchnorrDerivation(c *consOut) {
	k := c.k
	name := c.desc[:strings.IndexByte(c.desc, '(')]
	po := protect(func() {
		switch {
		case k.kind == "spub" && c.modelPt != nil:
			even := *c.modelPt
			if even.IsYOdd() {
				even = even.Neg()
				w.r.Probe("schnorr_pub_from_odd_y")
			} else {
				w.r.Probe("schnorr_pub_from_even_y")
			}
			if got := k.spub.Bytes(); !bytes.Equal(got, ref.I2OSP32(even.X)) {
				w.r.Violate("C14", "schnorr-key-x", name, w.step, "%s: Bytes()=%x, the x coordinate of the source point is %x", c.desc, got, ref.I2OSP32(even.X))
			}
			if got := k.spub.Point().UncompressedBytes(); !bytes.Equal(got, even.Uncompressed()) {
				w.r.Violate("C14", "schnorr-key-point", name, w.step, "%s: Point()=%x, the even-y point with the source's x is %x", c.desc, got, even.Uncompressed())
			}
		case k.kind == "spriv" && c.modelD != nil && c.modelD.Sign() > 0 && c.modelD.Cmp(ref.N) < 0:
			q := ref.BaseMul(c.modelD)
			even := q
			if q.IsYOdd() {
				even = q.Neg()
				w.r.Probe("schnorr_priv_from_odd_y")
			} else {
				w.r.Probe("schnorr_priv_from_even_y")
			}
			pk := k.spriv.PublicKey()
			if got := pk.Bytes(); !bytes.Equal(got, ref.I2OSP32(q.X)) {
				w.r.Violate("C14", "schnorr-key-x", name, w.step, "%s: PublicKey().Bytes()=%x, x(d*G)=%x", c.desc, got, ref.I2OSP32(q.X))
			}
			if got := pk.Point().UncompressedBytes(); !bytes.Equal(got, even.Uncompressed()) {
				w.r.Violate("C14", "schnorr-key-point", name, w.step, "%s: PublicKey().Point()=%x, the even-y point is %x", c.desc, got, even.Uncompressed())
			}
			if got := k.spriv.Bytes(); !bytes.Equal(got, ref.I2OSP32(c.modelD)) {
				w.r.Violate("C14", "schnorr-key-scalar", name, w.step, "%s: Bytes()=%x, want %x", c.desc, got, ref.I2OSP32(c.modelD))
			}
			// the signing scalar is consistent with the point: the signature
			// under zero aux equals the reference signature (sampled: the
			// model's scalar multiplications are slow)
			if w.t.Chance("ops", "kc.refsign", 1, 4) {
				want, ok := ref.BIP340Sign(c.modelD, make([]byte, 32), fixedMsg)
				got, err := k.spriv.Sign(zeroAux(), fixedMsg, nil)
				if !ok || err != nil || !bytes.Equal(got, want) {
					w.r.Violate("C14", "bip340-mismatch", name, w.step, "%s: signature of the derived key under zero aux randomness is %x (err=%v), BIP-340 reference gives %x", c.desc, got, err, want)
				}
				w.r.Probe("schnorr_derived_key_reference_signatures")
			}
		}
	})
	if po.panicked {
		w.r.Violate("C14", "schnorr-key-panic", name, w.step, "%s: accessors of the derived key panic: %s", c.desc, po.msg)
	}
}

// ---------------------------------------------------------------- accessors

func (w *World) opKeyAccess() {
	if len(w.keys) == 0 {
		w.opKeyConstruct()
		return
	}
	i := w.t.Choose("ops", "ka.key", len(w.keys))
	k := w.keys[i]
	acc := w.t.Choose("ops", "ka.acc", 5)
	var buf []byte
	var name string
	po := protect(func() {
		switch k.kind {
		case "priv":
			switch acc {
			case 0, 1:
				name, buf = "PrivateKey.Bytes", k.priv.Bytes()
			case 2:
				name = "PrivateKey.Scalar"
				r := w.pickScalar("ka.slot")
				w.scalars[r] = k.priv.Scalar()
				w.r.Fault("returned_object_enters_pool")
			case 3:
				name, buf = "PrivateKey.PublicKey.Bytes", k.priv.PublicKey().Bytes()
			case 4:
				name = "PrivateKey.PublicKey.Point"
				r := w.pickPoint("ka.slot")
				w.points[r] = k.priv.PublicKey().Point()
				w.adopt(r, name)
				w.r.Fault("returned_object_enters_pool")
			}
		case "pub":
			switch acc {
			case 0:
				name, buf = "PublicKey.Bytes", k.pub.Bytes()
			case 1:
				name, buf = "PublicKey.CompressedBytes", k.pub.CompressedBytes()
			case 2:
				name, buf = "PublicKey.ASN1Bytes", k.pub.ASN1Bytes()
			default:
				name = "PublicKey.Point"
				r := w.pickPoint("ka.slot")
				w.points[r] = k.pub.Point()
				w.adopt(r, name)
				w.r.Fault("returned_object_enters_pool")
			}
		case "spriv":
			switch acc {
			case 0, 1:
				name, buf = "SchnorrPrivateKey.Bytes", k.spriv.Bytes()
			case 2:
				name = "SchnorrPrivateKey.Scalar"
				r := w.pickScalar("ka.slot")
				w.scalars[r] = k.spriv.Scalar()
				w.r.Fault("returned_object_enters_pool")
			case 3:
				name, buf = "SchnorrPrivateKey.PublicKey.Bytes", k.spriv.PublicKey().Bytes()
			case 4:
				name = "SchnorrPrivateKey.PublicKey.Point"
				r := w.pickPoint("ka.slot")
				w.points[r] = k.spriv.PublicKey().Point()
				w.adopt(r, name)
				w.r.Fault("returned_object_enters_pool")
			}
		case "spub":
			switch acc {
			case 0, 1, 2:
				name, buf = "SchnorrPublicKey.Bytes", k.spub.Bytes()
			default:
				name = "SchnorrPublicKey.Point"
				r := w.pickPoint("ka.slot")
				w.points[r] = k.spub.Point()
				w.adopt(r, name)
				w.r.Fault("returned_object_enters_pool")
			}
		}
	})
	w.r.Hist("%d key%d.%s -> %x panic=%v", w.step, i, name, buf, po.panicked)
	w.r.Probe("accessor:" + name)
	if buf != nil {
		w.trackBuf(buf, "returned:"+name, i)
		// half of the time the caller scribbles over the returned slice at once
		if w.t.Bool("ops", "ka.scribble") {
			w.mutateBuf(len(w.bufs) - 1)
		}
	}
}

// ---------------------------------------------------------------- caller mutation

func (w *World) mutateBuf(bi int) {
	be := w.bufs[bi]
	if len(be.b) == 0 {
		return
	}
	how := w.t.Choose("ops", "mut.how", 4)
	switch how {
	case 0:
		pos := w.t.Choose("ops", "mut.pos", len(be.b))
		be.b[pos] ^= byte(1 << uint(w.t.Choose("ops", "mut.bit", 8)))
	case 1:
		for i := range be.b {
			be.b[i] = 0
		}
	case 2:
		for i := range be.b {
			be.b[i] ^= 0xff
		}
	case 3:
		copy(be.b, w.t.Bytes("ops", "mut.rnd", len(be.b)))
	}
	w.r.Hist("%d caller mutates buffer [%s of key%d] (how=%d)", w.step, be.role, be.key, how)
	w.r.Fault("caller_mutates_" + strings.SplitN(be.role, ":", 2)[0] + "_buffer")
	w.r.Probe("mutated:" + be.role)
	w.mutatedSince = true
	w.checkKeysCheap("caller mutation of " + be.role)
}

func (w *World) opMutate() {
	switch {
	case len(w.bufs) > 0 && w.t.Chance("ops", "mut.buf", 2, 3):
		w.mutateBuf(w.t.Choose("ops", "mut.which", len(w.bufs)))
	case w.t.Bool("ops", "mut.scalar"):
		// in-place arithmetic on a pool scalar (possibly one that was
		// supplied to or returned by a key)
		r := w.pickScalar("mut.s")
		w.execScalarCall(&scalarCall{"Add", r, []int{r, r}, fmt.Sprintf("s%d.Add(s%d,s%d) [caller mutation]", r, r, r), func(v *secp256k1.Scalar, sa []*secp256k1.Scalar) { v.Add(sa[0], sa[1]) }})
		w.r.Fault("caller_mutates_pool_scalar")
	default:
		r := w.pickPoint("mut.p")
		w.execPointCall(&pointCall{name: "Double", recv: r, pargs: []int{r}, desc: fmt.Sprintf("p%d.Double(p%d) [caller mutation]", r, r),
			f:     func(v *secp256k1.Point, pa []*secp256k1.Point, _ []*secp256k1.Scalar) { v.Double(pa[0]) },
			model: func(m []ref.Pt) ref.Pt { return m[0].Double() }})
		w.r.Fault("caller_mutates_pool_point")
	}
}
