package pool

import (
	"bytes"
	"fmt"
	"math/big"

	secp256k1 "gitlab.com/yawning/secp256k1-voi"

	"verif/sim/ref"
)

type scalarCall struct {
	name  string
	recv  int
	sargs []int
	desc  string
	f     func(recv *secp256k1.Scalar, sa []*secp256k1.Scalar)
}

func (w *World) scalarAliasPattern(c *scalarCall) string {
	pat := ""
	for i, a := range c.sargs {
		if a == c.recv {
			pat += fmt.Sprintf("recv=arg%d,", i+1)
		}
		for j := i + 1; j < len(c.sargs); j++ {
			if c.sargs[j] == a {
				pat += fmt.Sprintf("arg%d=arg%d,", i+1, j+1)
			}
		}
	}
	if pat == "" {
		return "distinct"
	}
	return pat[:len(pat)-1]
}

// execScalarCall: alias-equivalence and operands-unchanged for Scalar
// operations (C18).  Exactness mod n is C02 (not decided here).
func (w *World) execScalarCall(c *scalarCall) {
	var snap [nScalars][]byte
	for i, s := range w.scalars {
		snap[i] = s.Bytes()
	}
	pat := w.scalarAliasPattern(c)
	w.r.Probe("scalar_alias_" + pat)
	fr := secp256k1.NewScalar()
	fsa := make([]*secp256k1.Scalar, len(c.sargs))
	for i, a := range c.sargs {
		fsa[i] = secp256k1.NewScalarFrom(w.scalars[a])
	}
	po1 := protect(func() { c.f(fr, fsa) })
	for i, a := range c.sargs {
		if !bytes.Equal(fsa[i].Bytes(), snap[a]) {
			w.r.Violate("C18", "operand-modified", c.name, w.step, "%s: scalar operand #%d was modified (fresh receiver, distinct operands)", c.desc, i+1)
		}
	}
	sa := make([]*secp256k1.Scalar, len(c.sargs))
	for i, a := range c.sargs {
		sa[i] = w.scalars[a]
	}
	po2 := protect(func() { c.f(w.scalars[c.recv], sa) })
	got1, got2 := hx(fr.Bytes()), hx(w.scalars[c.recv].Bytes())
	out := got2
	if po2.panicked {
		out = "panic"
	}
	w.r.Hist("%d %s alias[%s] -> %s", w.step, c.desc, pat, out)
	if po1.panicked != po2.panicked {
		w.r.Violate("C18", "alias-changes-result", c.name+":"+pat, w.step, "%s: fresh/distinct panic=%v, drawn aliasing [%s] panic=%v", c.desc, po1.panicked, pat, po2.panicked)
		return
	}
	if po2.panicked {
		w.r.Probe("unexpected_panic_both:" + c.name)
		return
	}
	if got1 != got2 {
		w.r.Violate("C18", "alias-changes-result", c.name+":"+pat, w.step, "%s: fresh receiver + distinct operands gives %s, the drawn aliasing [%s] gives %s", c.desc, got1, pat, got2)
	}
	for i, s := range w.scalars {
		if i != c.recv && !bytes.Equal(s.Bytes(), snap[i]) {
			w.r.Violate("C18", "operand-modified", c.name, w.step, "%s: scalar slot %d (not the receiver) changed", c.desc, i)
		}
	}
}

func (w *World) opScalarArith() {
	r := w.pickScalar("recv")
	a, b := w.pickScalar("a"), w.pickScalar("b")
	S := func(i int) string { return fmt.Sprintf("s%d=%x", i, w.scalars[i].Bytes()) }
	switch w.t.Choose("ops", "sc.kind", 14) {
	case 0:
		w.execScalarCall(&scalarCall{"Add", r, []int{a, b}, fmt.Sprintf("s%d.Add(%s,%s)", r, S(a), S(b)), func(v *secp256k1.Scalar, sa []*secp256k1.Scalar) { v.Add(sa[0], sa[1]) }})
	case 1:
		w.execScalarCall(&scalarCall{"Subtract", r, []int{a, b}, fmt.Sprintf("s%d.Subtract(%s,%s)", r, S(a), S(b)), func(v *secp256k1.Scalar, sa []*secp256k1.Scalar) { v.Subtract(sa[0], sa[1]) }})
	case 2:
		w.execScalarCall(&scalarCall{"Multiply", r, []int{a, b}, fmt.Sprintf("s%d.Multiply(%s,%s)", r, S(a), S(b)), func(v *secp256k1.Scalar, sa []*secp256k1.Scalar) { v.Multiply(sa[0], sa[1]) }})
	case 3:
		w.execScalarCall(&scalarCall{"Negate", r, []int{a}, fmt.Sprintf("s%d.Negate(%s)", r, S(a)), func(v *secp256k1.Scalar, sa []*secp256k1.Scalar) { v.Negate(sa[0]) }})
	case 4:
		w.execScalarCall(&scalarCall{"Square", r, []int{a}, fmt.Sprintf("s%d.Square(%s)", r, S(a)), func(v *secp256k1.Scalar, sa []*secp256k1.Scalar) { v.Square(sa[0]) }})
	case 5:
		w.execScalarCall(&scalarCall{"Invert", r, []int{a}, fmt.Sprintf("s%d.Invert(%s)", r, S(a)), func(v *secp256k1.Scalar, sa []*secp256k1.Scalar) { v.Invert(sa[0]) }})
	case 6:
		w.execScalarCall(&scalarCall{"Set", r, []int{a}, fmt.Sprintf("s%d.Set(%s)", r, S(a)), func(v *secp256k1.Scalar, sa []*secp256k1.Scalar) { v.Set(sa[0]) }})
	case 7:
		ctrl := ctrlValues[w.t.Choose("ops", "ctrl", len(ctrlValues))]
		w.execScalarCall(&scalarCall{"ConditionalNegate", r, []int{a}, fmt.Sprintf("s%d.ConditionalNegate(%s,%#x)", r, S(a), ctrl), func(v *secp256k1.Scalar, sa []*secp256k1.Scalar) { v.ConditionalNegate(sa[0], ctrl) }})
	case 8:
		ctrl := ctrlValues[w.t.Choose("ops", "ctrl", len(ctrlValues))]
		w.execScalarCall(&scalarCall{"ConditionalSelect", r, []int{a, b}, fmt.Sprintf("s%d.ConditionalSelect(%s,%s,%#x)", r, S(a), S(b), ctrl), func(v *secp256k1.Scalar, sa []*secp256k1.Scalar) { v.ConditionalSelect(sa[0], sa[1], ctrl) }})
	case 9, 10:
		n := w.t.Choose("ops", "sc.veclen", 5)
		vec := []int{}
		for i := 0; i < n; i++ {
			if i == 0 && w.t.Chance("ops", "sc.recvin", 1, 3) {
				vec = append(vec, r)
			} else {
				vec = append(vec, w.pickScalar("v"))
			}
		}
		w.execScalarCall(&scalarCall{"Sum", r, vec, fmt.Sprintf("s%d.Sum(%v)", r, vec), func(v *secp256k1.Scalar, sa []*secp256k1.Scalar) { v.Sum(sa...) }})
	case 11:
		n := w.t.Choose("ops", "sc.veclen", 5)
		vec := []int{}
		for i := 0; i < n; i++ {
			if i == 0 && w.t.Chance("ops", "sc.recvin", 1, 3) {
				vec = append(vec, r)
			} else {
				vec = append(vec, w.pickScalar("v"))
			}
		}
		w.execScalarCall(&scalarCall{"Product", r, vec, fmt.Sprintf("s%d.Product(%v)", r, vec), func(v *secp256k1.Scalar, sa []*secp256k1.Scalar) { v.Product(sa...) }})
	case 12:
		if w.t.Bool("ops", "sc.one") {
			w.execScalarCall(&scalarCall{"One", r, nil, fmt.Sprintf("s%d.One()", r), func(v *secp256k1.Scalar, _ []*secp256k1.Scalar) { v.One() }})
		} else {
			w.execScalarCall(&scalarCall{"Zero", r, nil, fmt.Sprintf("s%d.Zero()", r), func(v *secp256k1.Scalar, _ []*secp256k1.Scalar) { v.Zero() }})
		}
	case 13: // observations
		sb := w.scalars[a].Bytes()
		got := fmt.Sprintf("Equal(s%d)=%d IsZero=%d IsGreaterThanHalfN=%d", b, w.scalars[a].Equal(w.scalars[b]), w.scalars[a].IsZero(), w.scalars[a].IsGreaterThanHalfN())
		w.r.Hist("%d observe %s: %s", w.step, S(a), got)
		if !bytes.Equal(w.scalars[a].Bytes(), sb) {
			w.r.Violate("C18", "operand-modified", "ScalarObserve", w.step, "a read-only scalar observation modified s%d", a)
		}
	}
}

func (w *World) genScalarBytes(label string) ([32]byte, bool) {
	var out [32]byte
	span := new(big.Int).Sub(twoTo256, ref.N)
	switch w.t.Choose("ops", label+".kind", 8) {
	case 0:
		copy(out[:], ref.I2OSP32(ref.N))
	case 1:
		copy(out[:], ref.I2OSP32(new(big.Int).Add(ref.N, big.NewInt(1))))
	case 2:
		copy(out[:], bytes.Repeat([]byte{0xff}, 32))
	case 3:
		v := ref.OS2IP(w.t.Bytes("ops", label+".rnd", 32))
		v.Mod(v, span)
		copy(out[:], ref.I2OSP32(v.Add(v, ref.N)))
	default:
		copy(out[:], ref.I2OSP32(w.drawScalarInt(label)))
	}
	return out, ref.OS2IP(out[:]).Cmp(ref.N) < 0
}

var twoTo256 = new(big.Int).Lsh(big.NewInt(1), 256)

func (w *World) opScalarDecode() {
	r := w.pickScalar("recv")
	src, canonical := w.genScalarBytes("sdec")
	orig := src
	s := w.scalars[r]
	before := s.Bytes()
	switch w.t.Choose("ops", "sdec.method", 4) {
	case 0: // SetBytes: reduces, never fails
		var flag uint64
		var ret *secp256k1.Scalar
		po := protect(func() { ret, flag = s.SetBytes(&src) })
		w.r.Hist("%d s%d.SetBytes(%x) -> %x reduced=%d panic=%v", w.step, r, orig, s.Bytes(), flag, po.panicked)
		_ = ret
	case 1, 2: // SetCanonicalBytes: may fail, receiver unchanged
		var ret *secp256k1.Scalar
		var err error
		po := protect(func() { ret, err = s.SetCanonicalBytes(&src) })
		w.r.Hist("%d s%d.SetCanonicalBytes(%x) -> %x err=%v panic=%v", w.step, r, orig, s.Bytes(), err != nil, po.panicked)
		if po.panicked {
			w.r.Probe("unexpected_panic_both:SetCanonicalBytes")
			break
		}
		if err != nil {
			w.r.Fault("failing_scalar_decode")
			if !canonical {
				w.r.Probe("scalar_decode_ge_n_rejected")
			}
			if ret != nil {
				w.r.Violate("C18", "object-returned-with-error", "Scalar.SetCanonicalBytes", w.step, "SetCanonicalBytes(%x) returned an error together with a non-nil *Scalar", orig)
			}
			if !bytes.Equal(s.Bytes(), before) {
				w.r.Violate("C18", "receiver-changed-on-failure", "Scalar.SetCanonicalBytes", w.step, "s%d.SetCanonicalBytes(%x) failed, but the receiver changed from %x to %x", r, orig, before, s.Bytes())
			}
		} else if ret == nil {
			w.r.Violate("C18", "nil-without-error", "Scalar.SetCanonicalBytes", w.step, "SetCanonicalBytes(%x) returned (nil, nil)", orig)
		}
	case 3: // constructor
		var ret *secp256k1.Scalar
		var err error
		po := protect(func() { ret, err = secp256k1.NewScalarFromCanonicalBytes(&src) })
		w.r.Hist("%d s%d = NewScalarFromCanonicalBytes(%x) -> err=%v panic=%v", w.step, r, orig, err != nil, po.panicked)
		if po.panicked {
			break
		}
		if err != nil {
			w.r.Fault("failing_scalar_decode")
			if ret != nil {
				w.r.Violate("C18", "object-returned-with-error", "NewScalarFromCanonicalBytes", w.step, "NewScalarFromCanonicalBytes(%x) returned an error together with a non-nil *Scalar", orig)
			}
		} else if ret == nil {
			w.r.Violate("C18", "nil-without-error", "NewScalarFromCanonicalBytes", w.step, "NewScalarFromCanonicalBytes(%x) returned (nil, nil)", orig)
		} else {
			w.scalars[r] = ret
		}
	}
	if src != orig {
		w.r.Violate("C18", "operand-modified", "ScalarDecode", w.step, "a scalar decoder modified the caller's source array")
	}
	// caller mutates the source array afterwards: the scalar must not follow
	got := w.scalars[r].Bytes()
	for i := range src {
		src[i] ^= 0xff
	}
	if !bytes.Equal(w.scalars[r].Bytes(), got) {
		w.r.Violate("C18", "caller-mutation-visible", "ScalarDecode", w.step, "mutating the source array after decoding changed scalar s%d", r)
	}
}
