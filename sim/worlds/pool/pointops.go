package pool

import (
	"bytes"
	"fmt"
	"math/big"

	secp256k1 "gitlab.com/yawning/secp256k1-voi"
	"gitlab.com/yawning/secp256k1-voi/secec/h2c"

	"verif/sim/ref"
)

// pointCall is one instance of a receiver-writing Point operation.
type pointCall struct {
	name  string
	recv  int
	pargs []int
	sargs []int
	desc  string
	// f performs the call on concrete objects.
	f func(recv *secp256k1.Point, pa []*secp256k1.Point, sa []*secp256k1.Scalar)
	// model gives the exact group-law result (nil: the model adopts the
	// implementation's validity-checked result).
	model func(pa []ref.Pt) ref.Pt
	// extraPanic: the call must panic for a documented reason other than
	// an uninitialised operand (mismatched list lengths).
	extraPanic bool
}

func encState(p *secp256k1.Point) string {
	raw := rawOf(p)
	if !raw.valid {
		return "uninitialised"
	}
	var enc []byte
	po := protect(func() { enc = p.UncompressedBytes() })
	if po.panicked {
		return "encode-panic:" + po.msg
	}
	return hx(enc)
}

// operandChanged: an operand that is not the receiver must be, after the
// call, what it was before.  Judged on what a caller can observe (validity
// and encodings); a change of the raw projective coordinates alone - an
// implementation renormalising an operand, say - is only counted.
func (w *World) operandChanged(was, now *secp256k1.Point) bool {
	rw, rn := rawOf(was), rawOf(now)
	if rw == rn {
		return false
	}
	if rw.valid != rn.valid {
		return true
	}
	if rw.valid && encState(was) != encState(now) {
		return true
	}
	w.r.Probe("operand_raw_representation_changed")
	return false
}

func (w *World) aliasPattern(c *pointCall) string {
	if len(c.pargs) > 6 {
		// long lists: summarise (the full pattern would be a different,
		// very long string for every call)
		recvAt, dups := -1, 0
		seen := map[int]bool{}
		for i, a := range c.pargs {
			if a == c.recv && recvAt < 0 {
				recvAt = i
			}
			if seen[a] {
				dups++
			}
			seen[a] = true
		}
		where := "recv-not-in-list"
		switch {
		case recvAt >= 256:
			where = "recv-at-index>=256"
		case recvAt >= 32:
			where = "recv-at-index>=32"
		case recvAt >= 0:
			where = "recv-at-index<32"
		}
		return fmt.Sprintf("long-list(%d terms),%s,repeated-points", len(c.pargs), where)
	}
	pat := ""
	for i, a := range c.pargs {
		if a == c.recv {
			pat += fmt.Sprintf("recv=arg%d,", i+1)
		}
		for j := i + 1; j < len(c.pargs); j++ {
			if c.pargs[j] == a {
				pat += fmt.Sprintf("arg%d=arg%d,", i+1, j+1)
			}
		}
	}
	for i, a := range c.sargs {
		for j := i + 1; j < len(c.sargs); j++ {
			if c.sargs[j] == a {
				pat += fmt.Sprintf("s%d=s%d,", i+1, j+1)
			}
		}
	}
	if pat == "" {
		return "distinct"
	}
	return pat[:len(pat)-1]
}

// execPointCall runs the call twice from the same pre-state — once with a
// fresh receiver and copied, pairwise-distinct operands, once on the drawn
// (possibly aliasing) pool objects — and applies the C18 oracles
// (alias-equivalence, operands unchanged, panic on uninitialised operand,
// nothing computed before the panic) and the C03 oracle (exact model).
func (w *World) execPointCall(c *pointCall) {
	var snapP [nPoints]secp256k1.Point
	var snapRaw [nPoints]rawPoint
	for i, p := range w.points {
		snapP[i] = *p
		snapRaw[i] = rawOf(p)
	}
	var snapS [nScalars][]byte
	for i, s := range w.scalars {
		snapS[i] = s.Bytes()
	}
	expectPanic := c.extraPanic
	uninitArg := -1
	for i, a := range c.pargs {
		if !w.init[a] {
			expectPanic = true
			uninitArg = i
		}
	}
	pat := w.aliasPattern(c)
	w.r.Probe("alias_" + pat)

	// --- fresh receiver, distinct copies
	fr := new(secp256k1.Point)
	fpa := make([]*secp256k1.Point, len(c.pargs))
	for i, a := range c.pargs {
		cp := snapP[a]
		fpa[i] = &cp
	}
	fsa := make([]*secp256k1.Scalar, len(c.sargs))
	for i, a := range c.sargs {
		fsa[i] = secp256k1.NewScalarFrom(w.scalars[a])
	}
	var po1 callOut
	var enc1 string
	runFresh := func() {
		po1 = protect(func() { c.f(fr, fpa, fsa) })
		enc1 = encState(fr)
	}
	// Which of the two executions comes first is drawn: state the library
	// keeps between calls (a one-entry cache keyed by the operand's address,
	// a pooled scratch) is then met by the caller's own objects first in half
	// of the calls.
	drawnFirst := w.t.Bool("ops", "exec.drawnfirst")
	if !drawnFirst {
		runFresh()
	}
	// --- the drawn objects (aliasing as drawn)
	// the caller's operand slices have spare capacity, with a sentinel in
	// the element right behind the part that is passed: a routine that
	// appends to its argument slices writes into the caller's memory
	sentinelP, sentinelS := new(secp256k1.Point), secp256k1.NewScalar()
	paBack := make([]*secp256k1.Point, len(c.pargs)+1)
	paBack[len(c.pargs)] = sentinelP
	pa := paBack[:len(c.pargs)]
	for i, a := range c.pargs {
		pa[i] = w.points[a]
	}
	saBack := make([]*secp256k1.Scalar, len(c.sargs)+1)
	saBack[len(c.sargs)] = sentinelS
	sa := saBack[:len(c.sargs)]
	for i, a := range c.sargs {
		sa[i] = w.scalars[a]
	}
	po2 := protect(func() { c.f(w.points[c.recv], pa, sa) })
	if drawnFirst {
		runFresh()
	}
	spareTouched := paBack[len(c.pargs)] != sentinelP || saBack[len(c.sargs)] != sentinelS
	for i, a := range c.pargs {
		if pa[i] != w.points[a] {
			spareTouched = true // the routine rearranged the caller's slice
		}
	}
	for i, a := range c.sargs {
		if sa[i] != w.scalars[a] {
			spareTouched = true
		}
	}
	for i, a := range c.pargs {
		was := snapP[a]
		if w.operandChanged(&was, fpa[i]) {
			w.r.Violate("C18", "operand-modified", c.name, w.step, "%s: point operand #%d was modified by the call (fresh receiver, distinct operands)", c.desc, i+1)
		}
	}
	for i, a := range c.sargs {
		if !bytes.Equal(fsa[i].Bytes(), snapS[a]) {
			w.r.Violate("C18", "operand-modified", c.name, w.step, "%s: scalar operand #%d was modified by the call", c.desc, i+1)
		}
	}

	enc2 := encState(w.points[c.recv])

	out := enc2
	if po2.panicked {
		out = "panic"
	}
	outFresh := enc1
	if po1.panicked {
		outFresh = "panic"
	}
	w.r.Hist("%d %s alias[%s] -> %s callerslices=%v fresh-receiver-distinct-operands -> %s", w.step, c.desc, pat, out, !spareTouched, outFresh)
	if spareTouched {
		w.r.Violate("C18", "operand-modified", c.name+":argument-slices", w.step, "%s: the call wrote into the caller's argument slices (reordered their elements or used their spare capacity)", c.desc)
	}

	// --- oracles
	if expectPanic {
		if uninitArg >= 0 {
			w.r.Probe("uninit_operand:" + c.name)
			w.r.Fault("uninitialised_operand")
		} else {
			w.r.Fault("mismatched_lengths")
		}
		if !po2.panicked || !po1.panicked {
			cls, key := "uninitialised-operand-accepted", fmt.Sprintf("%s:arg%d", c.name, uninitArg+1)
			if uninitArg < 0 {
				cls, key = "mismatched-lengths-accepted", c.name
			}
			w.r.Violate("C18", cls, key, w.step, "%s: must panic (uninitialised operand / mismatched lengths) but returned (fresh: panic=%v, drawn: panic=%v)", c.desc, po1.panicked, po2.panicked)
			w.adopt(c.recv, c.name)
			return
		}
		// "panics instead of computing": after the panic the receiver must
		// not hold a result.  A receiver that the routine merely invalidated
		// or wiped before it looked at its operands is not a result (probe
		// only); a receiver that is usable and reads differently from before
		// - or has become usable - is.
		if now := rawOf(w.points[c.recv]); now != snapRaw[c.recv] {
			was := snapP[c.recv]
			if now.valid && (!snapRaw[c.recv].valid || encState(w.points[c.recv]) != encState(&was)) {
				w.r.Violate("C18", "computed-before-panic", c.name, w.step, "%s: panicked, but the receiver holds a result (it was written, and is usable, after the panic)", c.desc)
			} else {
				w.r.Probe("receiver_raw_bytes_changed_before_panic")
			}
			w.adopt(c.recv, c.name)
		}
		return
	}
	if po1.panicked != po2.panicked {
		w.r.Violate("C18", "alias-changes-result", c.name+":"+pat, w.step, "%s: with a fresh receiver and distinct operands panic=%v (%s), with the drawn aliasing [%s] panic=%v (%s)", c.desc, po1.panicked, po1.msg, pat, po2.panicked, po2.msg)
		w.adopt(c.recv, c.name)
		return
	}
	if po2.panicked {
		// both panic on initialised operands: not a statement of C18/C03
		w.r.Probe("unexpected_panic_both:" + c.name)
		w.adopt(c.recv, c.name)
		return
	}
	if enc1 != enc2 {
		w.r.Violate("C18", "alias-changes-result", c.name+":"+pat, w.step, "%s: fresh receiver + distinct operands gives %s, the drawn aliasing [%s] gives %s", c.desc, enc1, pat, enc2)
	}
	for i, p := range w.points {
		was := snapP[i]
		if i != c.recv && w.operandChanged(&was, p) {
			w.r.Violate("C18", "operand-modified", c.name, w.step, "%s: point slot %d (not the receiver) changed", c.desc, i)
		}
	}
	for i, s := range w.scalars {
		if !bytes.Equal(s.Bytes(), snapS[i]) {
			w.r.Violate("C18", "operand-modified", c.name, w.step, "%s: scalar slot %d changed", c.desc, i)
		}
	}
	if c.model != nil {
		mpa := make([]ref.Pt, len(c.pargs))
		for i, a := range c.pargs {
			mpa[i] = w.mp[a]
		}
		want := c.model(mpa)
		w.r.Probe("grouplaw_steps")
		if want.Inf {
			w.r.Probe("grouplaw_result_identity")
		}
		if hx(want.Uncompressed()) != enc2 {
			w.r.Violate("C03", "group-law-mismatch", c.name, w.step, "%s [%s]: implementation %s, exact affine model %x", c.desc, pat, enc2, want.Uncompressed())
			w.adopt(c.recv, c.name)
			return
		}
		w.init[c.recv] = true
		w.mp[c.recv] = want
		return
	}
	w.adopt(c.recv, c.name)
}

// ---------------------------------------------------------------- group law

var ctrlValues = []uint64{0, 1, 2, 1 << 63, ^uint64(0), 0x100000000}

func (w *World) opGroupLaw() {
	r := w.pickPoint("recv")
	a := w.pickPoint("a")
	switch w.t.Choose("ops", "gl.kind", 11) {
	case 0, 1, 2:
		b := w.pickRelated("b", a)
		w.classifyPair(a, b)
		w.execPointCall(&pointCall{name: "Add", recv: r, pargs: []int{a, b}, desc: fmt.Sprintf("p%d.Add(p%d,p%d)", r, a, b),
			f:     func(v *secp256k1.Point, pa []*secp256k1.Point, _ []*secp256k1.Scalar) { v.Add(pa[0], pa[1]) },
			model: func(m []ref.Pt) ref.Pt { return m[0].Add(m[1]) }})
	case 3, 4:
		b := w.pickRelated("b", a)
		w.classifyPair(a, b)
		w.execPointCall(&pointCall{name: "Subtract", recv: r, pargs: []int{a, b}, desc: fmt.Sprintf("p%d.Subtract(p%d,p%d)", r, a, b),
			f:     func(v *secp256k1.Point, pa []*secp256k1.Point, _ []*secp256k1.Scalar) { v.Subtract(pa[0], pa[1]) },
			model: func(m []ref.Pt) ref.Pt { return m[0].Add(m[1].Neg()) }})
	case 5:
		w.execPointCall(&pointCall{name: "Double", recv: r, pargs: []int{a}, desc: fmt.Sprintf("p%d.Double(p%d)", r, a),
			f:     func(v *secp256k1.Point, pa []*secp256k1.Point, _ []*secp256k1.Scalar) { v.Double(pa[0]) },
			model: func(m []ref.Pt) ref.Pt { return m[0].Double() }})
	case 6:
		w.execPointCall(&pointCall{name: "Negate", recv: r, pargs: []int{a}, desc: fmt.Sprintf("p%d.Negate(p%d)", r, a),
			f:     func(v *secp256k1.Point, pa []*secp256k1.Point, _ []*secp256k1.Scalar) { v.Negate(pa[0]) },
			model: func(m []ref.Pt) ref.Pt { return m[0].Neg() }})
	case 7:
		ctrl := ctrlValues[w.t.Choose("ops", "ctrl", len(ctrlValues))]
		w.execPointCall(&pointCall{name: "ConditionalNegate", recv: r, pargs: []int{a}, desc: fmt.Sprintf("p%d.ConditionalNegate(p%d,%#x)", r, a, ctrl),
			f: func(v *secp256k1.Point, pa []*secp256k1.Point, _ []*secp256k1.Scalar) {
				v.ConditionalNegate(pa[0], ctrl)
			},
			model: func(m []ref.Pt) ref.Pt {
				if ctrl == 0 {
					return m[0].Clone()
				}
				return m[0].Neg()
			}})
	case 8:
		b := w.pickPoint("b")
		ctrl := ctrlValues[w.t.Choose("ops", "ctrl", len(ctrlValues))]
		w.execPointCall(&pointCall{name: "ConditionalSelect", recv: r, pargs: []int{a, b}, desc: fmt.Sprintf("p%d.ConditionalSelect(p%d,p%d,%#x)", r, a, b, ctrl),
			f: func(v *secp256k1.Point, pa []*secp256k1.Point, _ []*secp256k1.Scalar) {
				v.ConditionalSelect(pa[0], pa[1], ctrl)
			},
			model: func(m []ref.Pt) ref.Pt {
				if ctrl == 0 {
					return m[0].Clone()
				}
				return m[1].Clone()
			}})
	case 9:
		w.execPointCall(&pointCall{name: "Set", recv: r, pargs: []int{a}, desc: fmt.Sprintf("p%d.Set(p%d)", r, a),
			f:     func(v *secp256k1.Point, pa []*secp256k1.Point, _ []*secp256k1.Scalar) { v.Set(pa[0]) },
			model: func(m []ref.Pt) ref.Pt { return m[0].Clone() }})
	case 10:
		if w.t.Bool("ops", "gl.gen") {
			w.execPointCall(&pointCall{name: "Generator", recv: r, desc: fmt.Sprintf("p%d.Generator()", r),
				f:     func(v *secp256k1.Point, _ []*secp256k1.Point, _ []*secp256k1.Scalar) { v.Generator() },
				model: func(m []ref.Pt) ref.Pt { return ref.G() }})
		} else {
			w.execPointCall(&pointCall{name: "Identity", recv: r, desc: fmt.Sprintf("p%d.Identity()", r),
				f:     func(v *secp256k1.Point, _ []*secp256k1.Point, _ []*secp256k1.Scalar) { v.Identity() },
				model: func(m []ref.Pt) ref.Pt { return ref.Infinity() }})
		}
	}
}

// classifyPair counts which exceptional relation an operand pair is in.
func (w *World) classifyPair(a, b int) {
	if !w.init[a] || !w.init[b] {
		return
	}
	pa, pb := w.mp[a], w.mp[b]
	switch {
	case pa.Inf && pb.Inf:
		w.r.Probe("pair_identity_identity")
	case pa.Inf || pb.Inf:
		w.r.Probe("pair_identity_point")
	case pa.Eq(pb):
		if a == b {
			w.r.Probe("pair_same_slot")
		} else {
			w.r.Probe("pair_equal_points_distinct_objects")
		}
	case pa.Eq(pb.Neg()):
		w.r.Probe("pair_inverse_points")
	default:
		w.r.Probe("pair_generic")
	}
}

// ---------------------------------------------------------------- observations

func (w *World) opObserve() {
	a := w.pickPoint("a")
	kind := w.t.Choose("ops", "obs.kind", 7)
	name := []string{"Equal", "IsIdentity", "IsYOdd", "UncompressedBytes", "CompressedBytes", "XBytes", "Equal"}[kind]
	b := a
	if name == "Equal" {
		b = w.pickRelated("b", a)
	}
	wasA, wasB := *w.points[a], *w.points[b]
	expectPanic := !w.init[a] || (name == "Equal" && !w.init[b])
	var got string
	po := protect(func() {
		p := w.points[a]
		switch name {
		case "Equal":
			got = fmt.Sprint(p.Equal(w.points[b]))
		case "IsIdentity":
			got = fmt.Sprint(p.IsIdentity())
		case "IsYOdd":
			got = fmt.Sprint(p.IsYOdd())
		case "UncompressedBytes":
			got = hxOwn(p.UncompressedBytes())
		case "CompressedBytes":
			got = hxOwn(p.CompressedBytes())
		case "XBytes":
			x, err := p.XBytes()
			if err != nil {
				got = "error"
			} else {
				got = hxOwn(x)
			}
		}
	})
	desc := fmt.Sprintf("p%d.%s()", a, name)
	if name == "Equal" {
		desc = fmt.Sprintf("p%d.Equal(p%d)", a, b)
	}
	if po.panicked {
		got = "panic"
	}
	w.r.Hist("%d %s -> %s", w.step, desc, got)
	if w.operandChanged(&wasA, w.points[a]) || w.operandChanged(&wasB, w.points[b]) {
		w.r.Violate("C18", "operand-modified", name, w.step, "%s: a read-only observation modified its operand", desc)
	}
	if expectPanic {
		w.r.Probe("uninit_operand:" + name)
		w.r.Fault("uninitialised_operand")
		if !po.panicked {
			w.r.Violate("C18", "uninitialised-operand-accepted", name, w.step, "%s on an uninitialised point returned %s instead of panicking", desc, got)
		}
		return
	}
	if po.panicked {
		w.r.Probe("unexpected_panic_both:" + name)
		return
	}
	// C03: every observation depends only on the abstract point
	m := w.mp[a]
	var want string
	switch name {
	case "Equal":
		want = "0"
		if m.Eq(w.mp[b]) {
			want = "1"
		}
		w.classifyPair(a, b)
	case "IsIdentity":
		want = "0"
		if m.Inf {
			want = "1"
		}
	case "IsYOdd":
		if m.Inf {
			// the parity of the identity is a convention: it must merely
			// be the same for every representative / history
			v := 0
			if got == "1" {
				v = 1
			}
			if w.identYOdd >= 0 && w.identYOdd != v {
				w.r.Violate("C03", "observation-depends-on-representative", "IsYOdd(identity)", w.step, "%s: IsYOdd of the identity returned %s now and %d earlier in this history", desc, got, w.identYOdd)
			}
			w.identYOdd = v
			w.r.Probe("observed_identity_parity")
			return
		}
		want = "0"
		if m.IsYOdd() {
			want = "1"
		}
	case "UncompressedBytes":
		want = hx(m.Uncompressed())
	case "CompressedBytes":
		want = hx(m.Compressed())
	case "XBytes":
		if m.Inf {
			want = "error"
		} else {
			want = hx(ref.I2OSP32(m.X))
		}
	}
	w.r.Probe("observations")
	if got != want {
		w.r.Violate("C03", "observation-mismatch", name, w.step, "%s = %s, the abstract point says %s", desc, got, want)
	}
}

// ---------------------------------------------------------------- re-randomised representative (buggify)

func (w *World) opRescale() {
	a := w.pickPoint("a")
	var lam [32]byte
	switch w.t.Choose("ops", "lam.kind", 7) {
	case 0:
		lam[31] = 2
	case 1:
		copy(lam[:], ref.I2OSP32(new(big.Int).Sub(ref.P, big.NewInt(1))))
	case 2:
		lam[31] = 1 // the trivial scaling
	case 4:
		// steer Z to a value whose stored form looks like a small constant:
		// 1, 2, p-1, R = 2^256 mod p, 1/R, R^2 (the field arithmetic works on
		// Montgomery residues, so "Z == 1" tested on the wrong form fires for
		// 1/R, and so on)
		if l := w.lambdaForCoord(a, 2, zTargets[w.t.Choose("ops", "lam.ztarget", len(zTargets))]); l != nil {
			copy(lam[:], ref.I2OSP32(l))
			w.r.Probe("rescaled_to_special_z")
			break
		}
		lam[31] = 3
	case 5, 6:
		// make one raw coordinate of this point coincide with the same raw
		// coordinate of another pool point (different abstract points that
		// look alike to code comparing coordinates without cross-multiplying)
		b := w.pickPoint("lam.other")
		co := w.t.Choose("ops", "lam.coord", 3)
		if b != a && w.init[b] {
			rb := rawOf(w.points[b])
			target := ref.OS2IP([][]byte{rb.x[:], rb.y[:], rb.z[:]}[co])
			if l := w.lambdaForCoord(a, co, target); l != nil {
				copy(lam[:], ref.I2OSP32(l))
				w.r.Probe("rescaled_to_coincide_with_other_point")
				break
			}
		}
		lam[31] = 5
	default:
		v := ref.OS2IP(w.t.Bytes("ops", "lam.rnd", 32))
		v.Mod(v, new(big.Int).Sub(ref.P, big.NewInt(1)))
		v.Add(v, big.NewInt(1))
		copy(lam[:], ref.I2OSP32(v))
	}
	before := encState(w.points[a])
	ok := secp256k1.VerifRescale(w.points[a], &lam)
	w.r.Hist("%d rescale p%d by %x -> %v", w.step, a, lam, ok)
	if ok != w.init[a] {
		// The hook runs library code (field decoding, the zero test): when
		// it refuses a canonical non-zero factor for an initialised point,
		// or accepts an uninitialised one, that code or the validity flag is
		// off - the world's oracles say so where it matters; the fault is
		// simply not injected here.  (It used to be reported as harness
		// trouble: a 32-bit zero test broken by a seeded change made every
		// pool check exit 2 instead of reporting the change.)
		w.r.Probe("rescale_hook_disagrees_with_the_model")
		return
	}
	if ok {
		w.r.Fault("representative_rescaled")
		if w.mp[a].Inf {
			w.r.Fault("identity_representative_rescaled")
		}
		// the abstract point has not changed: every encoding must be the same
		if after := encState(w.points[a]); after != before {
			w.r.Violate("C03", "observation-depends-on-representative", "UncompressedBytes", w.step, "p%d encodes to %s, after scaling (X,Y,Z) by %x to %s", a, before, lam, after)
		}
	}
}

// zTargets are the values opRescale steers a Z coordinate to.
var zTargets = func() []*big.Int {
	r := new(big.Int).Lsh(big.NewInt(1), 256)
	r.Mod(r, ref.P)
	rinv := new(big.Int).ModInverse(r, ref.P)
	r2 := new(big.Int).Mul(r, r)
	r2.Mod(r2, ref.P)
	return []*big.Int{big.NewInt(1), big.NewInt(2), new(big.Int).Sub(ref.P, big.NewInt(1)), r, rinv, r2}
}()

// lambdaForCoord returns the scaling that turns raw coordinate co (0 = X,
// 1 = Y, 2 = Z) of slot a into target, or nil if there is none.
func (w *World) lambdaForCoord(a, co int, target *big.Int) *big.Int {
	if !w.init[a] || target.Sign() == 0 {
		return nil
	}
	ra := rawOf(w.points[a])
	cur := ref.OS2IP([][]byte{ra.x[:], ra.y[:], ra.z[:]}[co])
	if cur.Sign() == 0 {
		return nil
	}
	l := new(big.Int).ModInverse(cur, ref.P)
	l.Mul(l, target)
	l.Mod(l, ref.P)
	if l.Sign() == 0 {
		return nil
	}
	return l
}

// coincidentPairs: curve points P = (x, y) and Q = (mu*x, mu*y) (both on the
// curve: x^3 = 7(1+mu)/mu^2), so that P held as (mu*x : mu*y : mu) and Q held
// as (mu*x : mu*y : 1) have identical raw X and Y and are different points.
var coincidentPairs = func() [][3]*big.Int {
	var out [][3]*big.Int
	e := new(big.Int).Add(ref.P, big.NewInt(2))
	e.Div(e, big.NewInt(9)) // p = 7 mod 9: a cube root of c, if any, is c^((p+2)/9)
	for mu := int64(2); mu < 120 && len(out) < 12; mu++ {
		m := big.NewInt(mu)
		c := new(big.Int).Mul(m, m)
		c.ModInverse(c, ref.P)
		c.Mul(c, big.NewInt(7*(1+mu)))
		c.Mod(c, ref.P)
		x := new(big.Int).Exp(c, e, ref.P)
		if new(big.Int).Exp(x, big.NewInt(3), ref.P).Cmp(c) != 0 {
			continue
		}
		y2 := new(big.Int).Exp(x, big.NewInt(3), ref.P)
		y2.Add(y2, big.NewInt(7))
		y2.Mod(y2, ref.P)
		y, ok := ref.Sqrt(y2)
		if !ok {
			continue
		}
		mx, my := new(big.Int).Mul(m, x), new(big.Int).Mul(m, y)
		mx.Mod(mx, ref.P)
		my.Mod(my, ref.P)
		if !ref.OnCurve(x, y) || !ref.OnCurve(mx, my) {
			continue
		}
		out = append(out, [3]*big.Int{m, x, y})
	}
	return out
}()

// opCoincident puts such a pair into two pool slots and adds / subtracts /
// compares them in both orders.
func (w *World) opCoincident() {
	if len(coincidentPairs) == 0 {
		return
	}
	t := coincidentPairs[w.t.Choose("ops", "coin.which", len(coincidentPairs))]
	mu, x, y := t[0], t[1], t[2]
	if w.t.Bool("ops", "coin.negy") {
		y = new(big.Int).Sub(ref.P, y)
	}
	a := w.pickPoint("coin.a")
	b := (a + 1 + w.t.Choose("ops", "coin.b", nPoints-1)) % nPoints
	var xb, yb, mxb, myb, lam [32]byte
	copy(xb[:], ref.I2OSP32(x))
	copy(yb[:], ref.I2OSP32(y))
	mx, my := new(big.Int).Mul(mu, x), new(big.Int).Mul(mu, y)
	copy(mxb[:], ref.I2OSP32(mx.Mod(mx, ref.P)))
	copy(myb[:], ref.I2OSP32(my.Mod(my, ref.P)))
	copy(lam[:], ref.I2OSP32(mu))
	pa, errA := secp256k1.NewPointFromCoords(&xb, &yb)
	pb, errB := secp256k1.NewPointFromCoords(&mxb, &myb)
	if errA != nil || errB != nil || !secp256k1.VerifRescale(pa, &lam) {
		w.r.Hist("%d coincident pair mu=%d: construction refused (%v, %v)", w.step, mu, errA, errB)
		return
	}
	w.points[a], w.points[b] = pa, pb
	w.mp[a], w.init[a] = ref.Pt{X: x, Y: y}, true
	w.mp[b], w.init[b] = ref.Pt{X: mx, Y: my}, true
	ra, rb := rawOf(pa), rawOf(pb)
	w.r.Hist("%d coincident pair mu=%d: p%d=(x,y) held with Z=mu, p%d=(mu*x,mu*y) held with Z=1; raw X equal=%v raw Y equal=%v", w.step, mu, a, b, ra.x == rb.x, ra.y == rb.y)
	w.r.Fault("different_points_with_identical_raw_xy")
	r := w.pickPoint("coin.recv")
	for _, ord := range [][2]int{{a, b}, {b, a}} {
		p, q := ord[0], ord[1]
		w.execPointCall(&pointCall{name: "Add", recv: r, pargs: []int{p, q}, desc: fmt.Sprintf("p%d.Add(p%d,p%d) [coincident raw X,Y]", r, p, q),
			f:     func(v *secp256k1.Point, pa []*secp256k1.Point, _ []*secp256k1.Scalar) { v.Add(pa[0], pa[1]) },
			model: func(m []ref.Pt) ref.Pt { return m[0].Add(m[1]) }})
		if !w.init[p] || !w.init[q] {
			return // the receiver was one of the pair
		}
		w.execPointCall(&pointCall{name: "Subtract", recv: r, pargs: []int{p, q}, desc: fmt.Sprintf("p%d.Subtract(p%d,p%d) [coincident raw X,Y]", r, p, q),
			f:     func(v *secp256k1.Point, pa []*secp256k1.Point, _ []*secp256k1.Scalar) { v.Subtract(pa[0], pa[1]) },
			model: func(m []ref.Pt) ref.Pt { return m[0].Add(m[1].Neg()) }})
		if !w.init[p] || !w.init[q] {
			return
		}
		if w.mp[p].Eq(w.mp[q]) {
			continue
		}
		var eq uint64
		po := protect(func() { eq = w.points[p].Equal(w.points[q]) })
		w.r.Hist("%d p%d.Equal(p%d) [coincident raw X,Y] -> %d panic=%v", w.step, p, q, eq, po.panicked)
		if po.panicked || eq != 0 {
			w.r.Violate("C03", "observation-mismatch", "Equal", w.step, "p%d.Equal(p%d) = %d (panic=%v) for two different points whose raw X and Y coincide (Z = %d and Z = 1)", p, q, eq, po.panicked, mu)
		}
	}
}

func (w *World) opResetSlot() {
	a := w.pickPoint("a")
	w.points[a] = new(secp256k1.Point)
	w.init[a] = false
	w.r.Hist("%d p%d = new(Point) (zero value)", w.step, a)
	w.r.Fault("slot_reset_to_zero_value")
}

// ---------------------------------------------------------------- multiplications

func (w *World) opMul() {
	r := w.pickPoint("recv")
	var pc *pointCall
	base := -1 // the point operand, if any
	switch w.t.Choose("ops", "mul.kind", 4) {
	case 0, 1:
		a, s := w.pickPoint("a"), w.pickScalar("s")
		base = a
		pc = &pointCall{name: "ScalarMult", recv: r, pargs: []int{a}, sargs: []int{s}, desc: fmt.Sprintf("p%d.ScalarMult(s%d=%x,p%d)", r, s, w.scalars[s].Bytes(), a),
			f: func(v *secp256k1.Point, pa []*secp256k1.Point, sa []*secp256k1.Scalar) { v.ScalarMult(sa[0], pa[0]) }}
	case 2:
		s := w.pickScalar("s")
		w.noteLookups(w.scalars[s].Bytes())
		pc = &pointCall{name: "ScalarBaseMult", recv: r, sargs: []int{s}, desc: fmt.Sprintf("p%d.ScalarBaseMult(s%d=%x)", r, s, w.scalars[s].Bytes()),
			f: func(v *secp256k1.Point, _ []*secp256k1.Point, sa []*secp256k1.Scalar) { v.ScalarBaseMult(sa[0]) }}
	case 3:
		a, s1, s2 := w.pickPoint("a"), w.pickScalar("s1"), w.pickScalar("s2")
		base = a
		pc = &pointCall{name: "DoubleScalarMultBasepointVartime", recv: r, pargs: []int{a}, sargs: []int{s1, s2}, desc: fmt.Sprintf("p%d.DoubleScalarMultBasepointVartime(s%d=%x,s%d=%x,p%d)", r, s1, w.scalars[s1].Bytes(), s2, w.scalars[s2].Bytes(), a),
			f: func(v *secp256k1.Point, pa []*secp256k1.Point, sa []*secp256k1.Scalar) {
				v.DoubleScalarMultBasepointVartime(sa[0], sa[1], pa[0])
			}}
	}
	w.execPointCall(pc)
	// The same multiplication once more after the base object was updated in
	// place: whatever the library remembers about an operand (tables keyed by
	// its address, by one of its coordinates) must not outlive its value.
	if base >= 0 && base != r && w.init[base] && w.t.Chance("ops", "mul.again", 1, 4) {
		a := base
		switch w.t.Choose("ops", "mul.update", 3) {
		case 0:
			w.execPointCall(&pointCall{name: "Negate", recv: a, pargs: []int{a}, desc: fmt.Sprintf("p%d.Negate(p%d)", a, a),
				f:     func(v *secp256k1.Point, pa []*secp256k1.Point, _ []*secp256k1.Scalar) { v.Negate(pa[0]) },
				model: func(m []ref.Pt) ref.Pt { return m[0].Neg() }})
		case 1:
			w.execPointCall(&pointCall{name: "Double", recv: a, pargs: []int{a}, desc: fmt.Sprintf("p%d.Double(p%d)", a, a),
				f:     func(v *secp256k1.Point, pa []*secp256k1.Point, _ []*secp256k1.Scalar) { v.Double(pa[0]) },
				model: func(m []ref.Pt) ref.Pt { return m[0].Double() }})
		case 2:
			w.execPointCall(&pointCall{name: "ConditionalNegate", recv: a, pargs: []int{a}, desc: fmt.Sprintf("p%d.ConditionalNegate(p%d,1)", a, a),
				f:     func(v *secp256k1.Point, pa []*secp256k1.Point, _ []*secp256k1.Scalar) { v.ConditionalNegate(pa[0], 1) },
				model: func(m []ref.Pt) ref.Pt { return m[0].Neg() }})
		}
		w.r.Fault("operand_updated_in_place_between_identical_calls")
		again := *pc
		again.desc += " [again, after the in-place update of its base]"
		w.execPointCall(&again)
	}
}

// opBurst: many in-place updates of ONE point object with no observation in
// between.  The world looks at every pool point after every step (validity
// invariant), and every call is executed twice and compared - so an object
// is never written more than once without being encoded, and state a library
// keeps beside the coordinates (a revision counter, a cached encoding, a
// "normalised" flag) is refreshed before it can go stale.  Here the object
// is optionally encoded first, then written m times - m around the sizes
// such counters have - and only then compared with the exact model.
func (w *World) opBurst() {
	var cands []int
	for i := range w.points {
		if w.init[i] {
			cands = append(cands, i)
		}
	}
	if len(cands) == 0 {
		return
	}
	r := cands[w.t.Choose("ops", "burst.recv", len(cands))]
	m := []int{2, 3, 7, 8, 9, 15, 16, 17, 31, 32, 33, 63, 64, 65, 127, 128, 129, 255, 256, 257, 511, 512, 513}[w.t.Choose("ops", "burst.m", 23)]
	if w.t.Chance("ops", "burst.long", 1, 24) {
		// rarely, a very long one: 16-bit counters, and process-wide ones
		// that count every call up to 2^20 (a burst that long crosses a
		// multiple of 2^20 wherever the count stood)
		m = []int{65535, 65536, 65537, 1<<20 + 1}[w.t.Choose("ops", "burst.longm", 4)]
		w.r.Probe("burst_very_long")
	}
	kind := w.t.Choose("ops", "burst.kind", 3)
	other := cands[w.t.Choose("ops", "burst.other", len(cands))]
	first := w.t.Choose("ops", "burst.first", 4) // which encoder looks at it before the burst, if any
	p := w.points[r]
	model := w.mp[r]
	q, qm := *w.points[other], w.mp[other] // a private copy of the other operand
	name := []string{"Double", "Add", "Negate"}[kind]
	po := protect(func() {
		switch first {
		case 1:
			_ = p.UncompressedBytes()
		case 2:
			_ = p.CompressedBytes()
		case 3:
			_ = p.IsYOdd()
		}
		for i := 0; i < m; i++ {
			switch kind {
			case 0:
				p.Double(p)
			case 1:
				p.Add(p, &q)
			default:
				p.Negate(p)
			}
		}
	})
	// the model takes the short cut: 2^m * P, P + m * Q, (-1)^m * P
	switch kind {
	case 0:
		model = model.Mul(new(big.Int).Exp(big.NewInt(2), big.NewInt(int64(m)), ref.N))
	case 1:
		model = model.Add(qm.Mul(big.NewInt(int64(m))))
	default:
		if m%2 == 1 {
			model = model.Neg()
		}
	}
	desc := fmt.Sprintf("p%d.%s x%d in place, nothing looking at p%d in between (first look: %d)", r, name, m, r, first)
	w.r.Fault("burst_of_unobserved_in_place_updates")
	if po.panicked {
		w.r.Violate("C18", "library-panic", name+":burst", w.step, "%s panicked: %s", desc, po.msg)
		w.adopt(r, "burst")
		return
	}
	w.mp[r] = model
	var enc []byte
	po = protect(func() { enc = p.UncompressedBytes() })
	w.r.Hist("%d %s -> %x", w.step, desc, enc)
	if po.panicked {
		w.r.Violate("C18", "encode-panics", "burst", w.step, "%s: UncompressedBytes panicked: %s", desc, po.msg)
		return
	}
	if !bytes.Equal(enc, model.Uncompressed()) {
		w.r.Violate("C03", "group-law-mismatch", name+":burst", w.step, "%s: implementation encodes %x, exact affine model %x", desc, enc, model.Uncompressed())
		w.adopt(r, "burst")
	}
}

func (w *World) opMulti() {
	r := w.pickPoint("recv")
	n := w.t.Choose("ops", "multi.n", 5)
	recvAt := 0
	if w.t.Chance("ops", "multi.medium", 1, 4) {
		// every length between the short lists and the long ones (batch
		// limits, stack-allocated table arrays, window choices by length)
		n = 5 + w.t.Choose("ops", "multi.mediumn", 28)
		recvAt = w.t.Choose("ops", "multi.recvat", n)
		w.r.Probe("multi_medium_list")
	} else if w.t.Chance("ops", "multi.large", 1, 10) {
		// a long list (an implementation may batch or take another path
		// above some size), the receiver possibly anywhere in it
		n = []int{33, 40, 64, 65, 70, 257, 300}[w.t.Choose("ops", "multi.largen", 7)]
		if w.t.Chance("ops", "multi.huge", 1, 8) {
			// ... and, rarely, thousands of terms (chunked or tiled
			// implementations have their own boundaries up there)
			n = []int{1023, 1025, 2049}[w.t.Choose("ops", "multi.hugen", 3)]
			w.r.Probe("multi_huge_list")
		}
		recvAt = w.t.Choose("ops", "multi.recvat", n)
		w.r.Probe("multi_large_list")
	}
	var ps, ss []int
	for i := 0; i < n; i++ {
		if i == recvAt && w.t.Chance("ops", "multi.recvin", 1, 3) {
			ps = append(ps, r) // the receiver appears among the inputs
		} else {
			ps = append(ps, w.pickPoint("mp"))
		}
		ss = append(ss, w.pickScalar("ms"))
	}
	mismatch := w.t.Chance("ops", "multi.mismatch", 1, 8)
	if mismatch {
		if len(ss) > 0 && w.t.Bool("ops", "multi.drop") {
			ss = ss[:len(ss)-1]
		} else {
			ss = append(ss, w.pickScalar("ms"))
		}
	}
	vartime := w.t.Bool("ops", "multi.vartime")
	name := "MultiScalarMult"
	if vartime {
		name = "MultiScalarMultVartime"
	}
	if n <= 5 {
		w.r.Probe(fmt.Sprintf("multi_len_%d", n))
	}
	if !vartime && len(ss) == len(ps) && len(ss) >= 2 {
		for _, si := range ss {
			w.noteLookups(w.scalars[si].Bytes())
		}
	}
	// a length mismatch is detected before any operand is looked at
	w.execPointCall(&pointCall{name: name, recv: r, pargs: ps, sargs: ss, extraPanic: mismatch,
		desc: fmt.Sprintf("p%d.%s(scalars=%v, points=%v)", r, name, ss, ps),
		f: func(v *secp256k1.Point, pa []*secp256k1.Point, sa []*secp256k1.Scalar) {
			if vartime {
				v.MultiScalarMultVartime(sa, pa)
			} else {
				v.MultiScalarMult(sa, pa)
			}
		}})
}

// ---------------------------------------------------------------- h2c

func (w *World) opH2C() {
	r := w.pickPoint("recv")
	switch w.t.Choose("ops", "h2c.kind", 3) {
	case 0:
		n := 32 + w.t.Choose("ops", "h2c.len", 33)
		if w.t.Chance("ops", "h2c.badlen", 1, 8) {
			// a length outside 32..64 is refused with a panic; whatever the
			// receiver held must still be there afterwards
			n = []int{0, 1, 16, 31, 65, 66, 100}[w.t.Choose("ops", "h2c.badn", 7)]
			src := w.t.Bytes("ops", "h2c.src", n)
			before, rawBefore := observable(w.points[r]), rawOf(w.points[r])
			po := protect(func() { w.points[r].SetUniformBytes(src) })
			w.r.Hist("%d p%d.SetUniformBytes(%d bytes) -> panic=%v", w.step, r, n, po.panicked)
			w.r.Fault("failing_call_bad_length")
			if !po.panicked {
				w.r.Probe("uniform_bytes_bad_length_accepted")
				w.adopt(r, "SetUniformBytes")
				return
			}
			if after := observable(w.points[r]); after != before || rawOf(w.points[r]).valid != rawBefore.valid {
				w.r.Violate("C18", "receiver-changed-on-failure", "SetUniformBytes:bad-length", w.step, "p%d.SetUniformBytes(%d bytes) panicked (length outside 32..64), but the receiver changed from %s (valid=%v) to %s (valid=%v)", r, n, before, rawBefore.valid, after, rawOf(w.points[r]).valid)
				w.adopt(r, "SetUniformBytes")
			}
			return
		}
		src := w.t.Bytes("ops", "h2c.src", n)
		// field elements on which a map to the curve has exceptional cases:
		// 0, 1, -1, and the two u with Z*u^2 = -1 for Z = -11 (u^2 = 1/11,
		// where the simplified SWU denominator vanishes)
		if sp := w.t.Choose("ops", "h2c.special", 12); sp < len(specialUniform) {
			src = make([]byte, n)
			copy(src[n-32:], ref.I2OSP32(specialUniform[sp]))
			w.r.Probe("uniform_bytes_exceptional_field_element")
		}
		w.execPointCall(&pointCall{name: "SetUniformBytes", recv: r, desc: fmt.Sprintf("p%d.SetUniformBytes(%x)", r, src),
			f: func(v *secp256k1.Point, _ []*secp256k1.Point, _ []*secp256k1.Scalar) { v.SetUniformBytes(src) }})
	default:
		ro := w.t.Bool("ops", "h2c.ro")
		dst := w.t.Bytes("ops", "h2c.dst", 1+w.t.Choose("ops", "h2c.dstlen", 40))
		msg := w.t.Bytes("ops", "h2c.msg", w.t.Choose("ops", "h2c.msglen", 50))
		var p *secp256k1.Point
		var err error
		po := protect(func() {
			if ro {
				p, err = h2c.Secp256k1_XMD_SHA256_SSWU_RO(dst, msg)
			} else {
				p, err = h2c.Secp256k1_XMD_SHA256_SSWU_NU(dst, msg)
			}
		})
		out := "error"
		if po.panicked {
			out = "panic"
		} else if err == nil && p != nil {
			w.points[r] = p
			w.adopt(r, "h2c")
			out = encState(p)
		}
		w.r.Hist("%d p%d = h2c(ro=%v, dst=%x, msg=%x) -> %s", w.step, r, ro, dst, msg, out)
	}
}

// specialUniform: field elements u handed to SetUniformBytes (as a
// big-endian string that reduces to u).
var specialUniform = func() []*big.Int {
	pm1 := new(big.Int).Sub(ref.P, big.NewInt(1))
	out := []*big.Int{big.NewInt(0), big.NewInt(1), pm1}
	inv11 := new(big.Int).ModInverse(big.NewInt(11), ref.P)
	if r, ok := ref.Sqrt(inv11); ok {
		out = append(out, r, new(big.Int).Sub(ref.P, r))
	}
	return out
}()

// hxOwn renders an encoding that an observation was handed and then
// overwrites it: the bytes are the caller's.
func hxOwn(b []byte) string {
	out := hx(b)
	for i := range b {
		b[i] ^= 0xff
	}
	return out
}
