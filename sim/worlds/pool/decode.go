package pool

import (
	"bytes"
	"fmt"
	"math/big"

	secp256k1 "gitlab.com/yawning/secp256k1-voi"

	"verif/sim/ref"
)

var mutationKinds = []string{"valid", "truncated", "extended", "bad-prefix", "hybrid-prefix", "x>=p", "y>=p", "off-curve", "bad-identity", "empty", "other-format"}

// genEncoding draws an encoding: a valid encoding of some point, possibly
// mutated into one that must fail.  Returns the bytes and the mutation kind.
func (w *World) genEncoding(label string) ([]byte, string) {
	// base point: a pool point's model, or a fresh multiple of G
	var m ref.Pt
	src := w.t.Choose("ops", label+".src", nPoints+2)
	if src < nPoints && w.init[src] {
		m = w.mp[src]
	} else {
		m = ref.BaseMul(big.NewInt(int64(1 + w.t.Choose("ops", label+".k", 1000))))
	}
	// one of the two other points that share m's y coordinate (its images
	// under the curve endomorphism): equal y, different x
	if !m.Inf {
		switch w.t.Choose("ops", label+".endo", 8) {
		case 6:
			m = m.Endo()
			w.r.Probe("endomorphism_image_constructed")
		case 7:
			m = m.Endo().Endo()
			w.r.Probe("endomorphism_image_constructed")
		}
	}
	compressed := w.t.Bool("ops", label+".compressed")
	enc := m.Uncompressed()
	if compressed {
		enc = m.Compressed()
	}
	kind := w.t.Choose("ops", label+".mut", 2*len(mutationKinds))
	if kind >= len(mutationKinds) {
		kind = 0 // half of the encodings are valid
	}
	name := mutationKinds[kind]
	if m.Inf && kind != 0 && kind != 8 && kind != 9 {
		name, kind = "bad-identity", 8
	}
	switch name {
	case "truncated":
		enc = enc[:len(enc)-1]
	case "extended":
		enc = append(enc, byte(w.t.Choose("ops", label+".ext", 256)))
	case "bad-prefix":
		enc[0] = []byte{0x01, 0x05, 0x08, 0xff, 0x00}[w.t.Choose("ops", label+".pfx", 5)]
	case "hybrid-prefix":
		enc = m.Uncompressed()
		enc[0] = 0x06 + byte(m.Y.Bit(0))
	case "x>=p":
		v := new(big.Int).Add(ref.P, big.NewInt(int64(w.t.Choose("ops", label+".ov", 1<<20))))
		copy(enc[1:33], ref.I2OSP32(v))
	case "y>=p":
		enc = m.Uncompressed()
		v := new(big.Int).Add(ref.P, big.NewInt(int64(w.t.Choose("ops", label+".ov", 1<<20))))
		copy(enc[33:65], ref.I2OSP32(v))
	case "off-curve":
		if compressed {
			x := new(big.Int).Set(m.X)
			for i := 0; i < 64; i++ {
				x.Add(x, big.NewInt(1))
				if _, ok := ref.LiftX(x, false); !ok && x.Cmp(ref.P) < 0 {
					break
				}
			}
			copy(enc[1:33], ref.I2OSP32(x))
		} else {
			enc[64] ^= 1 << uint(w.t.Choose("ops", label+".bit", 8))
		}
	case "bad-identity":
		enc = []byte{[]byte{0x01, 0x02, 0x04, 0xff}[w.t.Choose("ops", label+".idb", 4)]}
	case "empty":
		enc = []byte{}
	case "other-format":
		// handled by the caller (format/method mismatch); as bytes it is valid
	}
	return enc, name
}

// observable is the caller-visible state of a point object.
func observable(p *secp256k1.Point) string { return encState(p) }

func (w *World) opDecode() {
	r := w.pickPoint("recv")
	enc, kind := w.genEncoding("dec")
	// the encoding that was decoded successfully last time, once more (into
	// whatever receiver was drawn): what was decoded before must not matter
	if w.lastGoodEnc != nil && w.t.Chance("ops", "dec.again", 1, 4) {
		enc, kind = append([]byte(nil), w.lastGoodEnc...), "valid"
		w.r.Probe("decode_same_encoding_again")
	}
	// ... and the encoding that was refused last time: it must be refused
	// again (an error must not leave anything behind that makes it pass)
	if w.lastBadEnc != nil && w.t.Chance("ops", "dec.badagain", 1, 6) {
		enc, kind = append([]byte(nil), w.lastBadEnc...), w.lastBadKind
		w.r.Probe("decode_refused_encoding_again")
	}
	method := w.t.Choose("ops", "dec.method", 4)
	if kind == "other-format" {
		// feed a compressed encoding to the uncompressed decoder and vice versa
		if len(enc) == 33 {
			method = 2
		} else {
			method = 1
		}
	}
	name := []string{"SetBytes", "SetCompressedBytes", "SetUncompressedBytes", "SetBytes"}[method]
	p := w.points[r]
	before, rawBefore := observable(p), rawOf(p)
	src := append([]byte(nil), enc...)
	if len(enc) <= len(w.decBuf) && w.t.Bool("ops", "dec.reusedbuf") {
		// the caller's long-lived buffer: the previous decode's input (and
		// the scribble that followed it) is overwritten with this one
		src = w.decBuf[:len(enc)]
		copy(src, enc)
		w.r.Fault("decode_from_reused_buffer")
	}
	var ret *secp256k1.Point
	var err error
	po := protect(func() {
		switch name {
		case "SetBytes":
			ret, err = p.SetBytes(src)
		case "SetCompressedBytes":
			ret, err = p.SetCompressedBytes(src)
		case "SetUncompressedBytes":
			ret, err = p.SetUncompressedBytes(src)
		}
	})
	desc := fmt.Sprintf("p%d.%s(%x) [%s]", r, name, enc, kind)
	out := "ok"
	if po.panicked {
		out = "panic"
	} else if err != nil {
		out = "error"
	}
	w.r.Hist("%d %s -> %s", w.step, desc, out)
	w.r.Probe("decode_" + kind)
	if !bytes.Equal(src, enc) {
		w.r.Violate("C18", "operand-modified", name, w.step, "%s modified the caller's source buffer", desc)
	}
	if po.panicked {
		w.r.Probe("unexpected_panic_both:" + name)
		w.adopt(r, name)
		return
	}
	_, merr := ref.Decode(enc)
	if (merr == nil) != (err == nil) && !(kind == "other-format") {
		// accept-set differences are C06's business, not decided here
		w.r.Probe("decode_verdict_differs_from_strict_model")
	}
	if err != nil {
		w.lastBadEnc, w.lastBadKind = append([]byte(nil), enc...), kind
		w.r.Fault("failing_decode")
		if !w.init[r] {
			w.r.Fault("failing_decode_into_zero_value")
		}
		if ret != nil {
			w.r.Violate("C18", "object-returned-with-error", name, w.step, "%s returned an error together with a non-nil *Point", desc)
		}
		after := observable(p)
		if after != before {
			w.r.Violate("C18", "receiver-changed-on-failure", name+":"+kind, w.step, "%s failed, but the receiver changed from %s to %s", desc, before, after)
			w.adopt(r, name)
		} else if rawOf(p) != rawBefore {
			w.r.Probe("failed_decode_rewrote_receiver_with_same_value")
		}
		return
	}
	if ret == nil {
		w.r.Violate("C18", "nil-without-error", name, w.step, "%s returned (nil, nil)", desc)
	}
	w.adopt(r, name)
	// the same bytes decoded again give the same point (whether a decoder
	// returns the encoded point at all is C06's business and is only
	// counted here)
	if w.lastGoodEnc != nil && bytes.Equal(enc, w.lastGoodEnc) && observable(p) != w.lastGoodObs {
		w.r.Probe("same_encoding_decoded_to_a_different_point")
	}
	w.lastGoodEnc, w.lastGoodObs = append([]byte(nil), enc...), observable(p)
	// the decoded point must not depend on the caller's buffer afterwards
	got := observable(p)
	for i := range src {
		src[i] ^= 0xa5
	}
	w.r.Fault("caller_mutates_supplied_buffer")
	if observable(p) != got {
		w.r.Violate("C18", "caller-mutation-visible", name, w.step, "%s: mutating the source buffer after the call changed the point", desc)
		w.adopt(r, name)
	}
}

// opConstruct: package-level constructors; the result replaces a slot.
func (w *World) opConstruct() {
	r := w.pickPoint("recv")
	var p *secp256k1.Point
	var err error
	var desc string
	expectPanic := false
	kind := w.t.Choose("ops", "cons.kind", 6)
	var po callOut
	switch kind {
	case 0:
		a := w.pickPoint("a")
		desc = fmt.Sprintf("NewPointFrom(p%d)", a)
		expectPanic = !w.init[a]
		was := *w.points[a]
		po = protect(func() { p = secp256k1.NewPointFrom(w.points[a]) })
		if w.operandChanged(&was, w.points[a]) {
			w.r.Violate("C18", "operand-modified", "NewPointFrom", w.step, "%s modified its operand", desc)
		}
		if !po.panicked && !expectPanic {
			// C03: Set semantics
			if encState(p) != hx(w.mp[a].Uncompressed()) {
				w.r.Violate("C03", "group-law-mismatch", "NewPointFrom", w.step, "%s = %s, model %x", desc, encState(p), w.mp[a].Uncompressed())
			}
		}
	case 1:
		enc, k := w.genEncoding("cons")
		desc = fmt.Sprintf("NewPointFromBytes(%x) [%s]", enc, k)
		src := append([]byte(nil), enc...)
		po = protect(func() { p, err = secp256k1.NewPointFromBytes(src) })
		if !bytes.Equal(src, enc) {
			w.r.Violate("C18", "operand-modified", "NewPointFromBytes", w.step, "%s modified the caller's buffer", desc)
		}
		if err == nil && p != nil && !po.panicked {
			got := encState(p)
			for i := range src {
				src[i] ^= 0x5a
			}
			w.r.Fault("caller_mutates_supplied_buffer")
			if encState(p) != got {
				w.r.Violate("C18", "caller-mutation-visible", "NewPointFromBytes", w.step, "%s: mutating the source buffer afterwards changed the point", desc)
			}
		}
	case 2:
		enc, k := w.genEncoding("cons")
		var xb, yb [32]byte
		if len(enc) == 65 {
			copy(xb[:], enc[1:33])
			copy(yb[:], enc[33:65])
		} else if len(enc) == 33 {
			copy(xb[:], enc[1:33])
			copy(yb[:], w.t.Bytes("ops", "cons.y", 32))
		}
		desc = fmt.Sprintf("NewPointFromCoords(%x,%x) [%s]", xb, yb, k)
		po = protect(func() { p, err = secp256k1.NewPointFromCoords(&xb, &yb) })
	case 3:
		s := w.pickScalar("s")
		id := byte(w.t.Choose("ops", "cons.recid", 6))
		desc = fmt.Sprintf("RecoverPoint(s%d=%x,%d)", s, w.scalars[s].Bytes(), id)
		sb := w.scalars[s].Bytes()
		po = protect(func() { p, err = secp256k1.RecoverPoint(w.scalars[s], id) })
		if !bytes.Equal(w.scalars[s].Bytes(), sb) {
			w.r.Violate("C18", "operand-modified", "RecoverPoint", w.step, "%s modified its scalar operand", desc)
		}
	case 4:
		desc = "NewIdentityPoint()"
		po = protect(func() { p = secp256k1.NewIdentityPoint() })
		if !po.panicked && encState(p) != "00" {
			w.r.Violate("C03", "group-law-mismatch", "NewIdentityPoint", w.step, "NewIdentityPoint() = %s", encState(p))
		}
	case 5:
		desc = "NewGeneratorPoint()"
		po = protect(func() { p = secp256k1.NewGeneratorPoint() })
		if !po.panicked && encState(p) != hx(ref.G().Uncompressed()) {
			w.r.Violate("C03", "group-law-mismatch", "NewGeneratorPoint", w.step, "NewGeneratorPoint() = %s", encState(p))
		}
	}
	out := "ok"
	switch {
	case po.panicked:
		out = "panic"
	case err != nil:
		out = "error"
	default:
		out = encState(p)
	}
	w.r.Hist("%d p%d = %s -> %s", w.step, r, desc, out)
	name := desc[:bytes.IndexByte([]byte(desc), '(')]
	if expectPanic {
		w.r.Probe("uninit_operand:" + name)
		w.r.Fault("uninitialised_operand")
		if !po.panicked {
			w.r.Violate("C18", "uninitialised-operand-accepted", name, w.step, "%s on an uninitialised point returned instead of panicking", desc)
		}
		return
	}
	if po.panicked {
		w.r.Probe("unexpected_panic_both:" + name)
		return
	}
	if err != nil {
		w.r.Fault("failing_constructor")
		if p != nil {
			w.r.Violate("C18", "object-returned-with-error", name, w.step, "%s returned an error together with a non-nil *Point", desc)
		}
		return
	}
	if p == nil {
		w.r.Violate("C18", "nil-without-error", name, w.step, "%s returned (nil, nil)", desc)
		return
	}
	w.points[r] = p
	w.adopt(r, name)
}
