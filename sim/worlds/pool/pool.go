// Package pool is the `pool` world: seeded call histories over a mutable
// pool of points, scalars and key objects, with receiver/argument aliasing,
// failing calls, uninitialised operands, caller-side mutation at arbitrary
// later steps, and re-randomised projective representatives.
//
// Decides C18 (full) and the history clause of C03; its recorded histories
// are also what C19 compares between the assembly and purego builds.
package pool

import (
	"bytes"
	"fmt"
	"math/big"

	secp256k1 "gitlab.com/yawning/secp256k1-voi"

	"verif/sim/kernel"
	"verif/sim/ref"
)

const (
	nPoints  = 6
	nScalars = 6
	maxKeys  = 4
	maxSteps = 80
)

type rawPoint struct {
	x, y, z [32]byte
	valid   bool
}

func rawOf(p *secp256k1.Point) rawPoint {
	x, y, z, v := secp256k1.VerifRawCoords(p)
	return rawPoint{x, y, z, v}
}

// World is the state of one run.
type World struct {
	r    *kernel.Run
	t    *kernel.Tape
	prop string
	step int

	points [nPoints]*secp256k1.Point
	mp     [nPoints]ref.Pt // exact affine model of every initialised slot
	init   [nPoints]bool

	scalars [nScalars]*secp256k1.Scalar

	keys []*keyEntry
	bufs []*bufEntry

	identYOdd    int    // -1 unknown; convention observed for IsYOdd(identity)
	scribbleObs  bool   // the harness overwrites every value its own observations obtain
	lastGoodEnc  []byte // the encoding the last successful decode was given
	lastGoodObs  string // ... and what it decoded to
	lastBadEnc   []byte // the encoding the last failed decode was given
	lastBadKind  string
	decBuf       [80]byte // a caller's long-lived input buffer, reused for many decodes
	mutatedSince bool

	// which (byte position, nibble, index 0..15) windows the constant-time
	// ladders were asked to look up (C19 reach measure)
	lookupCov [32 * 2 * 16 / 8]byte
}

// noteLookups records the table windows a scalar drives through the 4-bit
// constant-time ladders.
func (w *World) noteLookups(sb []byte) {
	for i, b := range sb {
		for h, v := range []int{int(b >> 4), int(b & 0xf)} {
			bit := (i*2+h)*16 + v
			w.lookupCov[bit/8] |= 1 << uint(bit%8)
		}
	}
}

func hx(b []byte) string { return kernel.Hex(b) }

type callOut struct {
	panicked bool
	msg      string
}

func protect(f func()) (out callOut) {
	defer func() {
		if e := recover(); e != nil {
			out.panicked = true
			out.msg = fmt.Sprint(e)
		}
	}()
	f()
	return
}

// ---------------------------------------------------------------- drawing

var fieldP = ref.P

func (w *World) drawScalarInt(label string) *big.Int {
	nm1 := new(big.Int).Sub(ref.N, big.NewInt(1))
	switch w.t.Choose("ops", label+".kind", 10) {
	case 0:
		return big.NewInt(0)
	case 1:
		return big.NewInt(1)
	case 2:
		return nm1
	case 3:
		return big.NewInt(2)
	case 4:
		return new(big.Int).Set(ref.HalfN)
	case 5:
		return new(big.Int).Add(ref.HalfN, big.NewInt(1))
	case 6: // 0-heavy / F-heavy nibble patterns
		b := bytes.Repeat([]byte{[]byte{0x00, 0xff, 0x0f, 0xf0}[w.t.Choose("ops", label+".pat", 4)]}, 32)
		b[w.t.Choose("ops", label+".pos", 32)] = byte(w.t.Choose("ops", label+".byte", 256))
		return ref.ModN(ref.OS2IP(b))
	case 7:
		return big.NewInt(int64(w.t.Choose("ops", label+".small", 1<<16)))
	}
	return ref.ModN(ref.OS2IP(w.t.Bytes("ops", label+".rnd", 32)))
}

func scalarFromInt(v *big.Int) *secp256k1.Scalar {
	var b [32]byte
	v.FillBytes(b[:])
	s, err := secp256k1.NewScalarFromCanonicalBytes(&b)
	if err != nil {
		panic("harness: scalar out of range")
	}
	return s
}

func (w *World) pickPoint(label string) int  { return w.t.Choose("ops", label, nPoints) }
func (w *World) pickScalar(label string) int { return w.t.Choose("ops", label, nScalars) }

// pickRelated prefers a slot whose abstract point is +-mp[a] (the
// exceptional relations Q = P, Q = -P arising by history).
func (w *World) pickRelated(label string, a int) int {
	if w.init[a] && w.t.Chance("ops", label+".rel", 1, 3) {
		var cands []int
		for i := 0; i < nPoints; i++ {
			if w.init[i] && (w.mp[i].Eq(w.mp[a]) || w.mp[i].Eq(w.mp[a].Neg()) || sameOrOppositeY(w.mp[i], w.mp[a])) {
				cands = append(cands, i)
			}
		}
		if len(cands) > 0 {
			return cands[w.t.Choose("ops", label+".relpick", len(cands))]
		}
	}
	return w.pickPoint(label)
}

// ---------------------------------------------------------------- invariants

// checkValidity: C18 validity invariant over the whole pool.
func (w *World) checkValidity(after string) {
	for i, p := range w.points {
		raw := rawOf(p)
		if raw.valid != w.init[i] {
			if raw.valid {
				w.r.Violate("C18", "uninitialised-became-valid", after, w.step, "after %s: point slot %d is marked valid although no successful operation initialised it", after, i)
			} else {
				w.r.Violate("C18", "initialised-became-invalid", after, w.step, "after %s: point slot %d lost its validity flag", after, i)
			}
			w.init[i] = raw.valid
			continue
		}
		if !raw.valid {
			continue
		}
		var enc []byte
		po := protect(func() { enc = p.UncompressedBytes() })
		if po.panicked {
			w.r.Violate("C18", "encode-panics", after, w.step, "after %s: UncompressedBytes of slot %d panicked: %s", after, i, po.msg)
			continue
		}
		q, err := ref.Decode(enc)
		if err != nil {
			w.r.Violate("C18", "invalid-point-escaped", after, w.step, "after %s: point slot %d encodes to %x, which is neither the identity nor a point with y^2 = x^3 + 7 and x,y < p", after, i, enc)
			continue
		}
		_ = q
	}
	for i, s := range w.scalars {
		b := s.Bytes()
		if !ref.ScalarCanonical(b) {
			w.r.Violate("C18", "non-canonical-scalar", after, w.step, "after %s: scalar slot %d encodes to %x >= n", after, i, b)
			continue
		}
		// canonical also means: the object is the residue its encoding
		// names, not another representative of it (limbs holding n for 0
		// encode as 0 but are neither zero nor equal to a decoded 0)
		var b32 [32]byte
		copy(b32[:], b)
		t, err := secp256k1.NewScalarFromCanonicalBytes(&b32)
		if err != nil {
			continue
		}
		isZero := ref.OS2IP(b).Sign() == 0
		if s.Equal(t) != 1 || t.Equal(s) != 1 || (s.IsZero() == 1) != isZero {
			w.r.Violate("C18", "non-canonical-scalar", after, w.step, "after %s: scalar slot %d encodes to %x but is not the scalar that encoding decodes to (Equal=%d/%d IsZero=%d): a non-canonical representative", after, i, b, s.Equal(t), t.Equal(s), s.IsZero())
		}
	}
}

// ---------------------------------------------------------------- fixture

func (w *World) buildFixture() {
	for i := range w.points {
		w.points[i] = new(secp256k1.Point)
	}
	for i := range w.scalars {
		w.scalars[i] = secp256k1.NewScalar()
	}
	// slots 0..2 initialised, 3..5 deliberately zero-value
	w.points[0].Generator()
	w.mp[0], w.init[0] = ref.G(), true
	w.points[1].Identity()
	w.mp[1], w.init[1] = ref.Infinity(), true
	k := w.drawScalarInt("fx.k")
	w.points[2].ScalarBaseMult(scalarFromInt(k))
	w.adopt(2, "fixture")
	for i := 0; i < nScalars; i++ {
		w.scalars[i].Set(scalarFromInt(w.drawScalarInt(fmt.Sprintf("fx.s%d", i))))
	}
	w.identYOdd = -1
	w.r.Hist("fixture p2=%x scalars=%s", w.points[2].CompressedBytes(), w.scalarDump())
}

func (w *World) scalarDump() string {
	s := ""
	for i, x := range w.scalars {
		if i > 0 {
			s += ","
		}
		s += hx(x.Bytes())
	}
	return s
}

// adopt makes the model take over the implementation's (validity-checked)
// result for slot i; used after operations that C03 does not model
// (scalar multiplication, decoders, hash-to-curve).
func (w *World) adopt(i int, after string) {
	raw := rawOf(w.points[i])
	if !raw.valid {
		w.init[i] = false
		return
	}
	var enc []byte
	po := protect(func() { enc = w.points[i].UncompressedBytes() })
	if po.panicked {
		w.r.Violate("C18", "encode-panics", after, w.step, "after %s: UncompressedBytes of slot %d panicked: %s", after, i, po.msg)
		return
	}
	q, err := ref.Decode(enc)
	if err != nil {
		w.init[i] = true
		w.mp[i] = ref.Infinity()
		w.r.Violate("C18", "invalid-point-escaped", after, w.step, "after %s: point slot %d encodes to %x, which is neither the identity nor on the curve", after, i, enc)
		return
	}
	w.init[i] = true
	w.mp[i] = q
}

// ---------------------------------------------------------------- run

// Run executes one seeded history.
func Run(run *kernel.Run, prop string) {
	w := &World{r: run, t: run.T, prop: prop}
	w.scribbleObs = w.t.Chance("cfg", "scribble_observations", 3, 4)
	run.Res.Cfg["scribble_observations"] = w.scribbleObs
	w.buildFixture()
	weights := w.opWeights()
	total := 0
	for _, x := range weights {
		total += x
	}
	for w.step < maxSteps*kernel.Depth && (w.t.Choose("ops", "more", 24*kernel.Depth) != 0 || w.step == 0) {
		w.step++
		c := w.t.Choose("ops", "kind", total)
		k := 0
		for c >= weights[k] {
			c -= weights[k]
			k++
		}
		run.Res.Ops++
		opTable[k].run(w)
		w.checkValidity(opTable[k].name)
		w.checkKeysCheap(opTable[k].name)
	}
	w.checkKeysFull("end-of-history")
	run.Res.Steps = w.step
	run.Res.Cfg["weights"] = weights
	run.Res.Cfg["lookup_cov"] = kernel.Hex(w.lookupCov[:])
}

// opCollect: the garbage collector as a fault the tape decides.  One or two
// complete collections (two empty every sync.Pool), finalizers run to
// completion; before that, sometimes, the caller drops a key object (its
// descendants - public halves, converted keys, encodings handed out - stay
// in use).  Nothing observable may change: the step is followed by the
// validity and key-immutability checks like every other step.
func (w *World) opCollect() {
	dropped := ""
	if len(w.keys) > 1 && w.t.Chance("ops", "gc.drop", 1, 2) {
		i := w.t.Choose("ops", "gc.which", len(w.keys))
		dropped = fmt.Sprintf(" after dropping key %d (%s, %s)", i, w.keys[i].kind, w.keys[i].how)
		w.dropKey(i)
		w.r.Fault("key_object_dropped_before_gc")
	}
	n := 1 + w.t.Choose("ops", "gc.n", 2)
	kernel.CollectGarbage(n)
	w.r.Fault(fmt.Sprintf("garbage_collected_x%d", n))
	w.r.Hist("%d gc x%d%s", w.step, n, dropped)
}

// dropKey forgets key i and the buffers that belong to it.
func (w *World) dropKey(i int) {
	w.keys = append(w.keys[:i:i], w.keys[i+1:]...)
	var kept []*bufEntry
	for _, b := range w.bufs {
		if b.key == i {
			continue
		}
		if b.key > i {
			b.key--
		}
		kept = append(kept, b)
	}
	w.bufs = kept
}

type opKind struct {
	name   string
	weight int
	run    func(w *World)
}

var opTable []opKind

func init() {
	opTable = []opKind{
		{"point-grouplaw", 14, (*World).opGroupLaw},
		{"point-observe", 8, (*World).opObserve},
		{"point-mul", 8, (*World).opMul},
		{"point-multi", 5, (*World).opMulti},
		{"point-decode", 8, (*World).opDecode},
		{"point-construct", 5, (*World).opConstruct},
		{"point-rescale", 5, (*World).opRescale},
		{"point-reset", 2, (*World).opResetSlot},
		{"scalar-arith", 8, (*World).opScalarArith},
		{"scalar-decode", 4, (*World).opScalarDecode},
		{"key-construct", 8, (*World).opKeyConstruct},
		{"key-access", 8, (*World).opKeyAccess},
		{"caller-mutation", 8, (*World).opMutate},
		{"h2c", 2, (*World).opH2C},
		{"point-coincident", 2, (*World).opCoincident},
		{"collect-garbage", 2, (*World).opCollect},
		{"point-burst", 2, (*World).opBurst},
	}
}

func (w *World) opWeights() []int {
	out := make([]int, len(opTable))
	sum := 0
	for i, k := range opTable {
		b := k.weight
		switch w.prop {
		case "C03":
			switch k.name {
			case "point-grouplaw":
				b *= 3
			case "point-observe", "point-rescale", "point-coincident", "point-burst":
				b *= 2
			case "key-construct", "key-access", "caller-mutation":
				b /= 4
			}
		case "C14":
			switch k.name {
			case "key-construct":
				b *= 6
			case "point-rescale", "point-grouplaw", "point-mul":
				b *= 2
			case "scalar-arith", "scalar-decode", "h2c", "point-observe":
				b /= 4
			}
		case "C19":
			switch k.name {
			case "point-mul", "point-multi", "key-construct":
				b *= 3
			}
		}
		switch w.t.Choose("cfg", fmt.Sprintf("w.%s", k.name), 4) {
		case 1:
			b *= 3
		case 3:
			b = 0
		}
		out[i] = b
		sum += b
	}
	if sum == 0 {
		for i, k := range opTable {
			out[i] = k.weight
		}
	}
	return out
}

// sameOrOppositeY: the points share y up to sign (P, -P and their images
// under the curve endomorphism).
func sameOrOppositeY(a, b ref.Pt) bool {
	if a.Inf || b.Inf {
		return false
	}
	return a.Y.Cmp(b.Y) == 0 || new(big.Int).Add(a.Y, b.Y).Cmp(ref.P) == 0
}
