// Package pool is the `pool` world (stub; filled in below).
package pool

import "verif/sim/kernel"

// Run executes one seeded history.
func Run(run *kernel.Run, prop string) {}
