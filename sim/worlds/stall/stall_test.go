//go:build go1.25

//go:debug asynctimerchan=0

// Package stall is the `stall` world: the entropy reader of a signing call
// stalls - delivers j < 32 bytes and then blocks for a long (simulated) time.
// It needs a clock the simulator owns, so it runs inside testing/synctest
// bubbles (Go >= 1.25: fake clock + quiescence detection) and is built with
// the newer toolchain of this sandbox (go1.26.8).
//
// The library has no timer or deadline of its own: on the unchanged tree a
// signer simply waits for its reader ("short reads are completed").  A
// changed library that gives up on a slow entropy source - a helper goroutine
// and a time-out - returns a signature although fewer than 32 bytes were
// delivered; the fake clock makes its time-out fire in microseconds.
package stall

import (
	"bufio"
	"bytes"
	crand "crypto/rand"
	"encoding/json"
	"fmt"
	"io"
	"math/big"
	"os"
	"runtime/debug"
	"strconv"
	"strings"
	"testing"
	"testing/synctest"
	"time"

	secp256k1 "gitlab.com/yawning/secp256k1-voi"
	"gitlab.com/yawning/secp256k1-voi/secec"
	"gitlab.com/yawning/secp256k1-voi/secec/bitcoin"

	"verif/sim/kernel"
	"verif/sim/ref"
	"verif/sim/replay"
)

// stalledDevice delivers `deliver` bytes (in reads of at most `chunk`), then
// blocks for `stall` of simulated time, and then either fails or - a slow but
// healthy source - resumes where it stopped.
type stalledDevice struct {
	seed      uint64
	deliver   int
	chunk     int
	stall     time.Duration
	resume    bool
	delivered int
	blocked   bool
	gaveUp    bool // the stall is over (the device failed or resumed)
}

const streamLen = 256

func (d *stalledDevice) Read(p []byte) (int, error) {
	limit := d.deliver
	if d.gaveUp && d.resume {
		limit = streamLen
	}
	if d.delivered >= limit {
		if d.gaveUp {
			return 0, fmt.Errorf("simulated entropy device: exhausted")
		}
		d.blocked = true
		time.Sleep(d.stall)
		d.gaveUp = true
		if !d.resume {
			return 0, fmt.Errorf("simulated entropy device: gave up after stalling for %v", d.stall)
		}
		limit = streamLen
	}
	n := len(p)
	if d.chunk > 0 && n > d.chunk {
		n = d.chunk
	}
	if n > limit-d.delivered {
		n = limit - d.delivered
	}
	b := kernel.Expand(d.seed, streamLen)
	copy(p, b[d.delivered:d.delivered+n])
	d.delivered += n
	return n, nil
}

type outcome struct {
	returned  bool
	sig       []byte
	err       error
	panicMsg  string
	at        time.Duration // simulated time at which the call came back
	stalledAt bool          // the reader was blocked (had not given up) at that moment
}

func runOne(t *testing.T, prop string, verifSeed uint64, idx int, src map[string][]kernel.Choice) (out *kernel.Result) {
	if prop == "C18" {
		return runAging(t, prop, verifSeed, idx, src)
	}
	if prop == "C20" {
		return runPeers(t, prop, verifSeed, idx, src)
	}
	res := &kernel.Result{World: "stall", Prop: prop, Variant: "asm-go1.26", VerifSeed: verifSeed, Idx: idx}
	res.RunSeed = kernel.RunSeed(verifSeed, "stall", idx)
	var tp *kernel.Tape
	if src != nil {
		tp = kernel.NewReplayTape(res.RunSeed, src)
	} else {
		tp = kernel.NewTape(res.RunSeed)
	}
	run := kernel.NewRun(tp, res, true)
	start := time.Now()
	defer func() {
		// a panic outside the signing call itself (key import, conversion):
		// raised in the library on valid arguments it is a verdict, raised
		// here it is a harness defect
		if e := recover(); e != nil {
			stack := string(debug.Stack())
			if fn, inLib := kernel.PanicOrigin(stack); inLib {
				run.Violate(prop, "library-panic", fn, 0, "a library call with valid arguments panicked: %v (raised in %s)\n%s", e, fn, stack)
			} else {
				run.Violate("HARNESS", "harness-panic", "stall", 0, "%v\n%s", e, stack)
			}
			run.Finish()
			res.Tape = tp.Record()
			out = res
		}
	}()

	// every draw happens outside the bubble
	d := new(big.Int).Add(big.NewInt(1), new(big.Int).Mod(ref.OS2IP(tp.Bytes("fixture", "key", 32)), new(big.Int).Sub(ref.N, big.NewInt(1))))
	digest := tp.Bytes("ops", "digest", 32)
	schnorr := prop == "C14"
	dev := &stalledDevice{
		seed:    tp.U64("ops", "dev.seed"),
		deliver: tp.Choose("ops", "dev.deliver", 32), // 0..31 bytes, never all 32
		chunk:   []int{0, 1, 7, 16}[tp.Choose("ops", "dev.chunk", 4)],
		stall:   []time.Duration{time.Second, time.Minute, time.Hour, 1000 * time.Hour}[tp.Choose("ops", "dev.stall", 4)],
	}
	dev.resume = tp.Chance("ops", "dev.resumes", 1, 3) // slow but healthy: delivers the rest after the stall
	observeAfter := []time.Duration{time.Millisecond, 5 * time.Second, 10 * time.Minute}[tp.Choose("ops", "observe_after", 3)]
	selfVerify := tp.Chance("ops", "self_verify", 1, 4)
	viaGlobal := tp.Chance("ops", "via_crypto_rand_Reader", 1, 4) // rand == nil: the library reads crypto/rand.Reader, which is the stalled device
	who := "ECDSA Sign"
	if schnorr {
		who = "Schnorr Sign"
	}
	run.Hist("key=%x digest=%x signer=%s self_verify=%v rand_is_nil=%v device: %d bytes in reads of at most %d, then stalls for %v, then %s; first look after %v of simulated time", ref.I2OSP32(d), digest, who, selfVerify, viaGlobal, dev.deliver, dev.chunk, dev.stall, map[bool]string{false: "fails", true: "resumes"}[dev.resume], observeAfter)
	run.Fault("entropy_reader_stalls")
	run.Fault(fmt.Sprintf("stall_%v", dev.stall))
	if dev.chunk > 0 {
		run.Fault("short_reads_before_stall")
	}
	run.Res.Ops = 1

	priv, err := secec.NewPrivateKey(ref.I2OSP32(d))
	if err != nil {
		run.Violate("HARNESS", "fixture-key-import", "NewPrivateKey", 0, "%v", err)
		run.Finish()
		return res
	}
	spriv := bitcoin.NewSchnorrPrivateKeyFromECDSA(priv)

	// what the same key, digest and entropy stream give with a prompt reader
	sign := func(rd io.Reader) ([]byte, error) {
		switch {
		case schnorr:
			return spriv.Sign(rd, digest, nil)
		case selfVerify:
			return priv.Sign(rd, digest, &secec.ECDSAOptions{SelfVerify: true})
		}
		return priv.Sign(rd, digest, nil)
	}
	var want []byte
	if dev.resume {
		run.Fault("reader_resumes_after_stall")
		w, werr := sign(bytes.NewReader(kernel.Expand(dev.seed, streamLen)))
		if werr != nil {
			run.Violate(prop, "healthy-device-failure", who, 0, "%s failed with a prompt, healthy entropy reader: %v", who, werr)
			run.Finish()
			res.Tape = tp.Record()
			return res
		}
		want = w
	}
	if viaGlobal {
		run.Fault("crypto_rand_Reader_stalls")
		saved := crand.Reader
		crand.Reader = dev
		defer func() { crand.Reader = saved }()
	}
	var o outcome
	var waitingAtFirstLook bool
	var bubblePanic string
	func() {
		// a bubble whose root returns while goroutines it started are still
		// blocked panics ("deadlock: main bubble goroutine has exited ...")
		defer func() {
			if e := recover(); e != nil {
				bubblePanic = fmt.Sprint(e)
			}
		}()
		synctest.Test(t, func(t *testing.T) {
			t0 := time.Now() // the bubble's fake clock
			done := make(chan outcome, 1)
			go func() {
				var o outcome
				defer func() {
					if e := recover(); e != nil {
						o.panicMsg = fmt.Sprint(e)
					}
					o.returned = true
					o.at = time.Since(t0)
					o.stalledAt = dev.blocked && !dev.gaveUp
					done <- o
				}()
				var rd io.Reader = dev
				if viaGlobal {
					rd = nil
				}
				switch {
				case schnorr:
					o.sig, o.err = spriv.Sign(rd, digest, nil)
				case selfVerify:
					o.sig, o.err = priv.Sign(rd, digest, &secec.ECDSAOptions{SelfVerify: true})
				default:
					o.sig, o.err = priv.Sign(rd, digest, nil)
				}
			}()
			// simulated time passes while the device is stalled; every timer the
			// library may have armed in the meantime fires
			time.Sleep(observeAfter)
			synctest.Wait()
			select {
			case o = <-done:
			default:
				// the signer is still waiting for its reader; with every goroutine
				// blocked the clock jumps to the next timer - the device's, on the
				// unchanged tree
				waitingAtFirstLook = true
				o = <-done
			}
			if dev.blocked && !dev.gaveUp {
				// the call is back but a goroutine it started still sits in the
				// stalled Read: let the device give up so that the bubble can end
				time.Sleep(dev.stall + time.Second)
				synctest.Wait()
			}
		})
	}()
	if bubblePanic != "" {
		run.Note("bubble ended with: %s", bubblePanic)
		run.Probe("goroutines_left_blocked_at_end_of_bubble")
		if !o.returned {
			run.Violate("HARNESS", "bubble", who, 1, "the bubble ended before the signing call came back: %s", bubblePanic)
		}
	}
	if waitingAtFirstLook {
		run.Probe("signer_still_waiting_at_first_look")
	}
	run.Hist("-> came back after %v of simulated time (reader stalled at that moment: %v, reader reached: %v, bytes delivered: %d): sig=%x err=%v panic=%q", o.at, o.stalledAt, dev.blocked, dev.delivered, o.sig, o.err, o.panicMsg)
	switch {
	case o.panicMsg != "":
		run.Violate(prop, "sign-panic", who, 1, "%s panicked with a stalling entropy reader: %s", who, o.panicMsg)
	case dev.resume && o.err == nil && !o.stalledAt:
		// the reader was slow, not broken: when and in which pieces the 32
		// bytes arrive must not show in the signature
		run.Probe("waited_for_slow_reader_then_signed")
		if !bytes.Equal(o.sig, want) {
			run.Violate(prop, "slow-reader-changes-signature", who, 1, "%s waited %v for a slow entropy reader and returned %x; the same key, digest and entropy bytes from a prompt reader give %x: the signature must be a function of (key, digest, the 32 bytes delivered), not of when they arrive", who, o.at, o.sig, want)
		}
		if dev.delivered != 32 {
			run.Violate(prop, "entropy-consumption", who, 1, "%s consumed %d bytes of a slow entropy reader, not 32", who, dev.delivered)
		}
	case dev.resume && o.err != nil && !o.stalledAt:
		// failing although the reader recovered: fails closed, only counted
		run.Probe("failed_although_slow_reader_recovered")
	case o.err == nil && o.stalledAt:
		run.Violate(prop, "signed-despite-stalled-reader", who, 1, "%s returned a signature after %v of simulated time although its entropy reader had delivered only %d of 32 bytes and was still blocked (it stalls for %v): the nonce must depend on exactly 32 bytes of caller entropy - the signer waits for its reader or fails with it, it does not go on without", who, o.at, dev.delivered, dev.stall)
	case o.err == nil:
		run.Violate(prop, "signed-despite-read-error", who, 1, "%s returned a signature although its entropy reader delivered %d of 32 bytes and then failed (reader reached: %v)", who, dev.delivered, dev.blocked)
	case o.stalledAt:
		// giving up with an error is not what io.ReadFull does, but no listed
		// property forbids a time-out that fails closed
		run.Probe("gave_up_with_error_while_reader_stalled")
	default:
		run.Probe("waited_for_reader_then_failed_with_it")
		if o.at < dev.stall {
			run.Violate("HARNESS", "fake-clock", who, 1, "the device's error arrived after %v, before its stall of %v", o.at, dev.stall)
		}
	}
	run.Res.Steps = int(o.at / time.Millisecond)
	run.Finish()
	res.WallUS = time.Since(start).Microseconds()
	res.Tape = tp.Record()
	res.Sig = fmt.Sprintf("%d/%d/%v/%v/%v/%v/%v", dev.deliver, dev.chunk, dev.stall, observeAfter, selfVerify, viaGlobal, dev.resume)
	return res
}

// runAging: key objects are immutable - also over time.  Keys are built
// inside a bubble, observed, left alone for 1 s .. 1000 h of simulated time
// (every timer the library may have armed fires), and observed again.
func runAging(t *testing.T, prop string, verifSeed uint64, idx int, src map[string][]kernel.Choice) (out *kernel.Result) {
	res := &kernel.Result{World: "stall", Prop: prop, Variant: "asm-go1.26", VerifSeed: verifSeed, Idx: idx}
	res.RunSeed = kernel.RunSeed(verifSeed, "stall", idx)
	var tp *kernel.Tape
	if src != nil {
		tp = kernel.NewReplayTape(res.RunSeed, src)
	} else {
		tp = kernel.NewTape(res.RunSeed)
	}
	run := kernel.NewRun(tp, res, true)
	start := time.Now()
	defer func() {
		if e := recover(); e != nil {
			stack := string(debug.Stack())
			if fn, inLib := kernel.PanicOrigin(stack); inLib {
				run.Violate(prop, "library-panic", fn, 0, "a library call with valid arguments panicked: %v (raised in %s)\n%s", e, fn, stack)
			} else {
				run.Violate("HARNESS", "harness-panic", "stall", 0, "%v\n%s", e, stack)
			}
			run.Finish()
			res.Tape = tp.Record()
			out = res
		}
	}()
	d := new(big.Int).Add(big.NewInt(1), new(big.Int).Mod(ref.OS2IP(tp.Bytes("fixture", "key", 32)), new(big.Int).Sub(ref.N, big.NewInt(1))))
	peerD := new(big.Int).Add(big.NewInt(1), new(big.Int).Mod(ref.OS2IP(tp.Bytes("fixture", "peer", 32)), new(big.Int).Sub(ref.N, big.NewInt(1))))
	digest := tp.Bytes("ops", "digest", 32)
	idle := []time.Duration{time.Second, 90 * time.Second, time.Hour, 25 * time.Hour, 1000 * time.Hour}[tp.Choose("ops", "idle", 5)]
	touchFirst := tp.Bool("ops", "touch_before_idle") // observe (and so warm every lazy field) before the idle period, or only after it
	how := tp.Choose("ops", "constructor", 3)
	run.Hist("key=%x peer=%x digest=%x constructor=%d idle=%v observed_before_idle=%v", ref.I2OSP32(d), ref.I2OSP32(peerD), digest, how, idle, touchFirst)
	run.Fault("time_passes_between_uses_of_a_key")
	run.Fault(fmt.Sprintf("idle_%v", idle))
	run.Res.Ops = 2

	observe := func(priv *secec.PrivateKey, pub *secec.PublicKey, spriv *bitcoin.SchnorrPrivateKey, peer *secec.PublicKey) string {
		sig, serr := priv.Sign(secec.RFC6979SHA256(), digest, nil)
		ssig, sserr := spriv.Sign(bytes.NewReader(make([]byte, 32)), digest, nil)
		sh, eerr := priv.ECDH(peer)
		okv := pub.Verify(digest, sig, nil)
		oks := spriv.PublicKey().Verify(digest, ssig)
		return fmt.Sprintf("priv=%x pub=%x/%x spub=%x rfc6979sig=%x/%v schnorrsig=%x/%v ecdh=%x/%v verify=%v/%v equal=%v", priv.Bytes(), pub.Bytes(), pub.CompressedBytes(), spriv.PublicKey().Bytes(), sig, serr, ssig, sserr, sh, eerr, okv, oks, priv.PublicKey().Equal(pub))
	}
	// what fresh objects built from the same bytes say, outside any bubble and right away
	mk := func() (*secec.PrivateKey, *secec.PublicKey, *bitcoin.SchnorrPrivateKey, *secec.PublicKey) {
		var priv *secec.PrivateKey
		var err error
		switch how {
		case 0:
			priv, err = secec.NewPrivateKey(ref.I2OSP32(d))
		case 1:
			sc, _ := secp256k1.NewScalarFromCanonicalBytes((*[32]byte)(ref.I2OSP32(d)))
			priv, err = secec.NewPrivateKeyFromScalar(sc)
		default:
			priv, err = secec.NewPrivateKey(ref.I2OSP32(d))
		}
		if err != nil {
			panic(fmt.Sprintf("fixture: %v", err))
		}
		pub := priv.PublicKey()
		if how == 2 {
			pub, err = secec.NewPublicKey(pub.CompressedBytes())
			if err != nil {
				panic(fmt.Sprintf("fixture: %v", err))
			}
		}
		pk, err := secec.NewPrivateKey(ref.I2OSP32(peerD))
		if err != nil {
			panic(fmt.Sprintf("fixture: %v", err))
		}
		return priv, pub, bitcoin.NewSchnorrPrivateKeyFromECDSA(priv), pk.PublicKey()
	}
	want := observe(mk())

	var before, after string
	var bubblePanic string
	func() {
		defer func() {
			if e := recover(); e != nil {
				if s := fmt.Sprint(e); strings.Contains(s, "deadlock: main bubble goroutine has exited") {
					bubblePanic = s
					return
				}
				panic(e)
			}
		}()
		synctest.Test(t, func(t *testing.T) {
			priv, pub, spriv, peer := mk()
			if touchFirst {
				before = observe(priv, pub, spriv, peer)
			}
			time.Sleep(idle)
			synctest.Wait()
			after = observe(priv, pub, spriv, peer)
		})
	}()
	if bubblePanic != "" {
		run.Probe("goroutines_left_blocked_at_end_of_bubble")
	}
	run.Hist("before idle: %s", before)
	run.Hist("after %v: %s", idle, after)
	switch {
	case touchFirst && before != want:
		run.Violate(prop, "key-differs-inside-bubble", "fresh key", 1, "a key built and observed at once (before any simulated time passed) reads\n  %s\nthe same bytes built and observed outside the bubble read\n  %s", before, want)
	case after != want:
		run.Violate(prop, "key-changed-with-time", fmt.Sprintf("constructor=%d", how), 2, "a key object was left alone for %v of simulated time (observed before: %v) and then reads\n  %s\nwhen it was new the same key read\n  %s\nkey objects are immutable: nothing but the caller's own calls may change what they do", idle, touchFirst, after, want)
	default:
		run.Probe("key_unchanged_after_idle_period")
	}
	run.Res.Steps = int(idle / time.Millisecond)
	run.Finish()
	res.WallUS = time.Since(start).Microseconds()
	res.Tape = tp.Record()
	res.Sig = fmt.Sprintf("aging/%v/%v/%d", idle, touchFirst, how)
	return res
}

// abandon is set by TestStallWorld: it writes one result and ends the
// process with exit code 3 (a bubble that can no longer make progress
// cannot be left in any other way).
var abandon func(res *kernel.Result)

// runPeers: a caller that is stuck in its own entropy reader must not hold up
// anybody else (C20: "each call returns the same result it would return when
// run alone").  Caller A signs with a reader that stalls for 1000 h of
// simulated time; while A is parked there, caller B performs one operation
// with its own objects or with the same key, and must come back with the
// result it has when it runs alone.
func runPeers(t *testing.T, prop string, verifSeed uint64, idx int, src map[string][]kernel.Choice) (out *kernel.Result) {
	res := &kernel.Result{World: "stall", Prop: prop, Variant: "asm-go1.26", VerifSeed: verifSeed, Idx: idx}
	res.RunSeed = kernel.RunSeed(verifSeed, "stall", idx)
	var tp *kernel.Tape
	if src != nil {
		tp = kernel.NewReplayTape(res.RunSeed, src)
	} else {
		tp = kernel.NewTape(res.RunSeed)
	}
	run := kernel.NewRun(tp, res, true)
	start := time.Now()
	defer func() {
		if e := recover(); e != nil {
			stack := string(debug.Stack())
			if fn, inLib := kernel.PanicOrigin(stack); inLib {
				run.Violate(prop, "library-panic", fn, 0, "a library call with valid arguments panicked: %v (raised in %s)\n%s", e, fn, stack)
			} else {
				run.Violate("HARNESS", "harness-panic", "stall", 0, "%v\n%s", e, stack)
			}
			run.Finish()
			res.Tape = tp.Record()
			out = res
		}
	}()
	dA := new(big.Int).Add(big.NewInt(1), new(big.Int).Mod(ref.OS2IP(tp.Bytes("fixture", "keyA", 32)), new(big.Int).Sub(ref.N, big.NewInt(1))))
	dB := new(big.Int).Add(big.NewInt(1), new(big.Int).Mod(ref.OS2IP(tp.Bytes("fixture", "keyB", 32)), new(big.Int).Sub(ref.N, big.NewInt(1))))
	digest := tp.Bytes("ops", "digest", 32)
	sameKey := tp.Chance("ops", "same_key", 1, 3)
	aSchnorr := tp.Chance("ops", "a.schnorr", 1, 3)
	devA := &stalledDevice{seed: tp.U64("ops", "devA.seed"), deliver: tp.Choose("ops", "devA.deliver", 32), chunk: []int{0, 1, 7}[tp.Choose("ops", "devA.chunk", 3)], stall: 1000 * time.Hour}
	bKind := tp.Choose("ops", "b.kind", 6)
	bSeed := tp.U64("ops", "devB.seed")
	bNames := []string{"ECDSA Sign(own reader)", "Schnorr Sign(own reader)", "ECDSA Sign(RFC 6979)", "Verify", "ECDH", "NewPrivateKey+PublicKey"}
	run.Hist("A: key=%x schnorr=%v reader delivers %d bytes (reads of at most %d) and stalls; B: %s same_key=%v key=%x digest=%x", ref.I2OSP32(dA), aSchnorr, devA.deliver, devA.chunk, bNames[bKind], sameKey, ref.I2OSP32(dB), digest)
	run.Fault("peer_stalled_in_its_entropy_reader")
	run.Res.Ops = 2

	privA, err := secec.NewPrivateKey(ref.I2OSP32(dA))
	if err != nil {
		panic(fmt.Sprintf("fixture: %v", err))
	}
	privB := privA
	if !sameKey {
		if privB, err = secec.NewPrivateKey(ref.I2OSP32(dB)); err != nil {
			panic(fmt.Sprintf("fixture: %v", err))
		}
	}
	sprivA, sprivB := bitcoin.NewSchnorrPrivateKeyFromECDSA(privA), bitcoin.NewSchnorrPrivateKeyFromECDSA(privB)
	fixedSig, _ := privB.Sign(secec.RFC6979SHA256(), digest, nil)
	opB := func() string {
		switch bKind {
		case 0:
			sig, err := privB.Sign(bytes.NewReader(kernel.Expand(bSeed, 64)), digest, nil)
			return fmt.Sprintf("%x/%v", sig, err)
		case 1:
			sig, err := sprivB.Sign(bytes.NewReader(kernel.Expand(bSeed, 64)), digest, nil)
			return fmt.Sprintf("%x/%v", sig, err)
		case 2:
			sig, err := privB.Sign(secec.RFC6979SHA256(), digest, nil)
			return fmt.Sprintf("%x/%v", sig, err)
		case 3:
			return fmt.Sprint(privB.PublicKey().Verify(digest, fixedSig, nil))
		case 4:
			sh, err := privB.ECDH(privA.PublicKey())
			return fmt.Sprintf("%x/%v", sh, err)
		}
		k, err := secec.NewPrivateKey(ref.I2OSP32(dB))
		if err != nil {
			return "err"
		}
		return fmt.Sprintf("%x", k.PublicKey().CompressedBytes())
	}
	want := opB() // alone, outside any bubble

	// A bubble in which B is blocked on something that is not a timer or a
	// channel (a mutex held by the parked A) never becomes quiescent and
	// cannot be left: a real-time watchdog reports it and ends the process.
	finished := make(chan struct{})
	go func() {
		select {
		case <-finished:
		case <-time.After(10 * time.Second): // real time: started outside the bubble
			run.Hist("-> B has not come back after 10 s of real time while A is parked in its reader")
			run.Violate(prop, "held-up-by-a-stalled-peer", bNames[bKind], 2, "caller B (%s, same key: %v) did not return while caller A was parked in its own entropy reader (%d of 32 bytes delivered, stalling): run alone, B returns %s at once. A caller's reader is the caller's business; nothing another caller needs may be held while it runs", bNames[bKind], sameKey, devA.delivered, want)
			run.Finish()
			res.Tape = tp.Record()
			res.WallUS = time.Since(start).Microseconds()
			if abandon != nil {
				abandon(res)
			}
		}
	}()
	var got string
	var bBack, aBackEarly bool
	var bubblePanic string
	func() {
		defer func() {
			if e := recover(); e != nil {
				if s := fmt.Sprint(e); strings.Contains(s, "deadlock: main bubble goroutine has exited") {
					bubblePanic = s
					return
				}
				panic(e)
			}
		}()
		synctest.Test(t, func(t *testing.T) {
			aDone := make(chan struct{})
			go func() {
				defer close(aDone)
				defer func() { _ = recover() }()
				if aSchnorr {
					_, _ = sprivA.Sign(devA, digest, nil)
				} else {
					_, _ = privA.Sign(devA, digest, nil)
				}
			}()
			time.Sleep(time.Millisecond)
			synctest.Wait() // A is parked in its reader now
			select {
			case <-aDone:
				aBackEarly = true
			default:
			}
			bDone := make(chan string, 1)
			go func() { bDone <- opB() }()
			time.Sleep(time.Second) // simulated
			synctest.Wait()
			select {
			case got = <-bDone:
				bBack = true
			default:
			}
			// let A's reader give up so that the bubble can end
			time.Sleep(devA.stall + time.Second)
			synctest.Wait()
			if !bBack {
				select {
				case got = <-bDone:
				default:
				}
			}
		})
	}()
	close(finished)
	if bubblePanic != "" {
		run.Probe("goroutines_left_blocked_at_end_of_bubble")
	}
	if aBackEarly {
		run.Probe("stalled_caller_came_back_early") // C09's business (stall world, C09 mode)
	}
	run.Hist("-> B came back while A was parked: %v; B returned %s", bBack, got)
	switch {
	case !bBack:
		run.Violate(prop, "held-up-by-a-stalled-peer", bNames[bKind], 2, "caller B (%s, same key: %v) was still waiting one simulated second after it started, while caller A was parked in its own entropy reader; it came back only when A's reader gave up (%s). Run alone, B returns %s at once", bNames[bKind], sameKey, got, want)
	case got != want:
		run.Violate(prop, "result-differs-from-solo-run", bNames[bKind], 2, "caller B (%s, same key: %v) returned %s while caller A was parked in its entropy reader; run alone it returns %s", bNames[bKind], sameKey, got, want)
	default:
		run.Probe("peer_unaffected_by_stalled_caller")
	}
	run.Res.Steps = int((devA.stall + 2*time.Second) / time.Millisecond)
	run.Finish()
	res.WallUS = time.Since(start).Microseconds()
	res.Tape = tp.Record()
	res.Sig = fmt.Sprintf("peers/%d/%v/%v/%d", bKind, sameKey, aSchnorr, devA.deliver)
	return res
}

func envInt(name string, def int) int {
	if n, err := strconv.Atoi(os.Getenv(name)); err == nil {
		return n
	}
	return def
}

// TestStallWorld is the entry point; the driver passes its parameters in the
// environment and reads one JSON result per line from stdout.
func TestStallWorld(t *testing.T) {
	if os.Getenv("VERIF_STALL") == "" {
		t.Skip("run by /verif/check")
	}
	out := bufio.NewWriter(os.Stdout)
	defer out.Flush()
	enc := json.NewEncoder(out)
	abandon = func(res *kernel.Result) {
		_ = enc.Encode(res)
		out.Flush()
		os.Exit(3)
	}
	prop := os.Getenv("VERIF_STALL_PROP")
	if path := os.Getenv("VERIF_STALL_REPLAY"); path != "" {
		rf, err := replay.Load(path)
		if err != nil {
			t.Fatal(err)
		}
		_ = enc.Encode(runOne(t, rf.Prop, rf.VerifSeed, rf.Idx, rf.Tape))
		return
	}
	seed, _ := strconv.ParseUint(os.Getenv("VERIF_STALL_SEED"), 10, 64)
	from, n := envInt("VERIF_STALL_FROM", 0), envInt("VERIF_STALL_N", 1)
	for i := from; i < from+n; i++ {
		res := runOne(t, prop, seed, i, nil)
		res.JobFrom = from
		if len(res.Violations) == 0 && os.Getenv("VERIF_STALL_FULL") == "" {
			res.Tape = nil
			if i > from+2 {
				res.Trace = nil
			}
		}
		_ = enc.Encode(res)
	}
}
