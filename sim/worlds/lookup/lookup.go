// Package lookup is the `lookup` world: seeded histories of constant-time
// table lookups driven through a verif-tagged hook with arbitrary table
// contents (random limbs, all-ones, single-bit and single-hole patterns in
// every slot and limb position), every index 0..15, destinations that are
// reused across steps (dirty receivers), and both legal placements of the
// table and of the destination in memory (0 and 8 mod 16: Go guarantees
// only 8-byte alignment, so where the allocator puts a table is environment
// nondeterminism that the simulator owns here).
//
// Decides the lookup-level clause of C19: the same tape is executed in the
// assembly and in the purego build and the recorded histories (coordinate
// bytes returned by every lookup) must be identical; within each build the
// selected entry must be returned exactly, and the SSE2 routines must write
// nothing but the coordinate bytes of the destination.
package lookup

import (
	"bytes"
	"fmt"
	"runtime/debug"

	secp256k1 "gitlab.com/yawning/secp256k1-voi"

	"verif/sim/kernel"
)

const maxSteps = 48

type world struct {
	r     *kernel.Run
	t     *kernel.Tape
	proj  bool
	kind  string
	esz   int // entry size
	coord int // leading coordinate bytes of an entry
	tbl   []byte
	dst   []byte
	pat   [15]string
	step  int
}

func (w *world) limbs() int { return w.coord / 8 }

// fillEntry writes a pattern into the coordinate bytes of b.
func (w *world) fillEntry(stream string, b []byte) string {
	co := b[:w.coord]
	switch w.t.Choose(stream, "pat", 6) {
	case 0:
		copy(co, w.t.Bytes(stream, "rnd", len(co)))
		return "random"
	case 1:
		for i := range co {
			co[i] = 0xff
		}
		return "all-ones"
	case 2:
		for i := range co {
			co[i] = 0
		}
		limb, bit := w.t.Choose(stream, "limb", w.limbs()), w.t.Choose(stream, "bit", 64)
		co[limb*8+bit/8] |= 1 << uint(bit%8)
		return fmt.Sprintf("single-bit(limb %d bit %d)", limb, bit)
	case 3:
		for i := range co {
			co[i] = 0xff
		}
		limb, bit := w.t.Choose(stream, "limb", w.limbs()), w.t.Choose(stream, "bit", 64)
		co[limb*8+bit/8] &^= 1 << uint(bit%8)
		return fmt.Sprintf("single-hole(limb %d bit %d)", limb, bit)
	case 4:
		for i := range co {
			co[i] = 0
		}
		return "zero"
	default:
		// one limb all-ones, the rest zero
		for i := range co {
			co[i] = 0
		}
		limb := w.t.Choose(stream, "limb", w.limbs())
		for i := 0; i < 8; i++ {
			co[limb*8+i] = 0xff
		}
		return fmt.Sprintf("one-limb-ones(limb %d)", limb)
	}
}

// fillTail sets the non-coordinate bytes of a projective entry: the Go bool
// (0 or 1) and the padding after it.
func (w *world) fillTail(stream string, b []byte) {
	if len(b) <= w.coord {
		return
	}
	tail := b[w.coord:]
	tail[0] = byte(w.t.Choose(stream, "flag", 2))
	pad := []byte{0x00, 0xff, 0xa5}[w.t.Choose(stream, "pad", 3)]
	for i := 1; i < len(tail); i++ {
		tail[i] = pad
	}
}

func (w *world) call(idx uint64, misT, misD bool, dst []byte) (out []byte, fault string) {
	old := debug.SetPanicOnFault(true)
	defer debug.SetPanicOnFault(old)
	defer func() {
		if e := recover(); e != nil {
			fault = fmt.Sprint(e)
		}
	}()
	if w.proj {
		return secp256k1.VerifLookupProjectiveRaw(w.tbl, dst, idx, misT, misD), ""
	}
	return secp256k1.VerifLookupAffineRaw(w.tbl, dst, idx, misT, misD), ""
}

// Run executes one seeded lookup history.
func Run(run *kernel.Run) {
	w := &world{r: run, t: run.T}
	w.proj = w.t.Bool("cfg", "projective")
	if w.proj {
		w.kind, w.esz, w.coord = "projective", secp256k1.VerifProjectiveEntrySize, secp256k1.VerifCoordinateBytes
	} else {
		w.kind, w.esz, w.coord = "affine", secp256k1.VerifAffineEntrySize, secp256k1.VerifAffineEntrySize
	}
	run.Res.Cfg["table"] = w.kind
	run.Res.Cfg["impl"] = Impl
	w.tbl = make([]byte, 15*w.esz)
	w.dst = make([]byte, w.esz)
	for e := 0; e < 15; e++ {
		ent := w.tbl[e*w.esz : (e+1)*w.esz]
		w.pat[e] = w.fillEntry("fixture", ent)
		w.fillTail("fixture", ent)
	}
	w.fillTail("fixture", w.dst)
	run.Hist("fixture %s table=%x", w.kind, w.tbl)

	for w.step < maxSteps*kernel.Depth && (w.t.Choose("ops", "more", 24*kernel.Depth) != 0 || w.step == 0) {
		w.step++
		run.Res.Ops++
		switch c := w.t.Choose("ops", "kind", 11); {
		case c < 6:
			w.opLookup()
		case c < 9:
			e := w.t.Choose("ops", "slot", 15)
			ent := w.tbl[e*w.esz : (e+1)*w.esz]
			w.pat[e] = w.fillEntry("ops", ent)
			w.fillTail("ops", ent)
			run.Hist("%d fill slot %d with %s -> %x", w.step, e, w.pat[e], ent)
		default:
			p := w.fillEntry("ops", w.dst)
			w.fillTail("ops", w.dst)
			run.Hist("%d caller overwrites the destination with %s -> %x", w.step, p, w.dst)
			run.Fault("dirty_destination")
		}
	}
	run.Res.Steps = w.step
}

func (w *world) opLookup() {
	idx := uint64(w.t.Choose("ops", "idx", 16))
	misT, misD := w.t.Bool("ops", "misalign_table"), w.t.Bool("ops", "misalign_dst")
	pre := append([]byte(nil), w.dst...)
	if !w.proj && idx == 0 {
		// Index 0 of the affine lookup selects nothing: the portable routine
		// leaves the destination as it is and the SSE2 routine stores zero.
		// Every caller in the library passes a zeroed destination and the
		// property does not quantify over destination contents, so the
		// harness honours that contract here (see DESIGN.md, C19).
		for i := 0; i < w.coord; i++ {
			pre[i] = 0
		}
		w.r.Probe("affine_idx0_destination_zeroed_by_contract")
	}
	out, fault := w.call(idx, misT, misD, pre)
	desc := fmt.Sprintf("lookup(%s, idx=%d, table@%s, dst@%s, dst before=%x)", w.kind, idx, place(misT), place(misD), pre[:w.coord])
	if misT {
		w.r.Fault("table_at_8_mod_16")
	}
	if misD {
		w.r.Fault("destination_at_8_mod_16")
	}
	w.r.Probe(fmt.Sprintf("idx:%s:%02d", w.kind, idx))
	if idx > 0 {
		w.r.Probe("entry_pattern:" + patClass(w.pat[idx-1]))
	}
	if fault != "" {
		w.r.Hist("%d %s -> FAULT", w.step, desc)
		w.r.Violate("C19", "lookup-faulted", w.kind+":"+Impl, w.step, "%s faulted in the %s build: %s (the table types only guarantee 8-byte alignment)", desc, Impl, fault)
		return
	}
	w.r.Hist("%d %s -> %x", w.step, desc, out[:w.coord])
	if idx > 0 {
		want := w.tbl[int(idx-1)*w.esz : int(idx-1)*w.esz+w.coord]
		if !bytes.Equal(out[:w.coord], want) {
			w.r.Violate("C19", "lookup-wrong-entry", w.kind+":"+Impl, w.step, "%s returned %x in the %s build, entry %d of the table is %x (%s)", desc, out[:w.coord], Impl, idx, want, w.pat[idx-1])
		}
	}
	// the result must not depend on what the destination held before,
	// except for index 0 of the affine lookup, which selects nothing
	if w.proj || idx > 0 {
		clean := make([]byte, w.esz)
		copy(clean[w.coord:], pre[w.coord:])
		out2, fault2 := w.call(idx, misT, misD, clean)
		if fault2 == "" && !bytes.Equal(out2[:w.coord], out[:w.coord]) {
			w.r.Violate("C19", "lookup-depends-on-destination", w.kind+":"+Impl, w.step, "%s returned %x in the %s build, but %x when the destination was zeroed first", desc, out[:w.coord], Impl, out2[:w.coord])
		}
	}
	if Impl == "sse2" && !bytes.Equal(out[w.coord:], pre[w.coord:]) {
		w.r.Violate("C19", "lookup-wrote-beyond-coordinates", w.kind+":"+Impl, w.step, "%s changed the non-coordinate bytes of the destination from %x to %x (the SSE2 routine must write only the coordinate bytes)", desc, pre[w.coord:], out[w.coord:])
	}
	if !bytes.Equal(out[w.coord:], pre[w.coord:]) {
		w.r.Probe("non_coordinate_bytes_written:" + Impl)
	}
	// the destination is reused by the next step (dirty receiver); its
	// non-coordinate bytes are restored so that both builds continue from
	// the same state
	copy(w.dst[:w.coord], out[:w.coord])
}

func place(mis bool) string {
	if mis {
		return "8mod16"
	}
	return "0mod16"
}

func patClass(p string) string {
	for i := 0; i < len(p); i++ {
		if p[i] == '(' {
			return p[:i]
		}
	}
	return p
}
