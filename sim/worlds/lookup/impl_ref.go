//go:build !amd64 || purego

package lookup

// Impl names the lookup implementation this binary was built with.
const Impl = "portable"
