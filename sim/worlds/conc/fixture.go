// Package conc is the `conc` world: N caller goroutines performing
// read-only operations on shared keys, points, scalars and the package-level
// tables, under every interleaving the tape-driven scheduler can produce at
// statement granularity.  Decides C20.
package conc

import (
	"bytes"
	"crypto"
	_ "crypto/sha256"
	"fmt"
	"math/big"
	"strings"

	secp256k1 "gitlab.com/yawning/secp256k1-voi"
	"gitlab.com/yawning/secp256k1-voi/secec"
	"gitlab.com/yawning/secp256k1-voi/secec/bitcoin"

	"verif/sim/kernel"
	"verif/sim/ref"
)

// Spec is the serialised form of a fixture: everything is bytes, so that
// independent clones can be rebuilt from it.
type Spec struct {
	Cold        bool
	PrivBytes   [][]byte
	PointEncs   [][]byte
	PointLambda [][]byte // nil entry = keep Z = 1
	ScalarBytes [][]byte
	Digests     [][]byte
	Msgs        [][]byte
	DSTs        [][]byte
	OptEnc      int
	OptSelf     bool
	OptRejMal   bool
	// OptHashUnset: the shared options leave Hash at its zero value
	OptHashUnset bool
}

// Fixture is the set of shared objects of one run.
type Fixture struct {
	spec    *Spec
	privs   []*secec.PrivateKey
	pubs    []*secec.PublicKey
	sprivs  []*bitcoin.SchnorrPrivateKey
	spubs   []*bitcoin.SchnorrPublicKey
	points  []*secp256k1.Point
	scalars []*secp256k1.Scalar
	opts    *secec.ECDSAOptions
	digests [][]byte
	msgs    [][]byte
	dsts    [][]byte

	// ready-made signatures by key 0..n-1 over digest 0 (deterministic)
	sigASN1, sigCompact, sigRec, sigBIP66 [][]byte
	sigR, sigS                            []*secp256k1.Scalar
	sigV                                  []byte
	schSigs                               [][]byte
	// shared byte strings for parsers / constructors
	pubEncs  [][]byte // compressed, uncompressed, ASN.1 of each public key
	privEncs [][]byte
	badBytes [][]byte
	// slices of operands that several callers pass, as they are, to the
	// multi-scalar multiplications (the slices themselves are shared
	// read-only operands too)
	msmScalars []*secp256k1.Scalar
	msmPoints  []*secp256k1.Point
	modelQ     []ref.Pt
	modelD     []*big.Int
}

func hx(b []byte) string { return kernel.Hex(b) }

// DrawSpec draws a fixture from the tape.
func DrawSpec(t *kernel.Tape, cold bool) *Spec {
	s := &Spec{Cold: cold}
	nm1 := new(big.Int).Sub(ref.N, big.NewInt(1))
	nk := 1 + t.Choose("fixture", "nkeys", 3)
	for i := 0; i < nk; i++ {
		var d *big.Int
		switch t.Choose("fixture", "key.kind", 5) {
		case 0:
			d = big.NewInt(1)
		case 1:
			d = nm1
		case 2:
			d = big.NewInt(int64(2 + t.Choose("fixture", "key.small", 100)))
		default:
			d = ref.ModN(ref.OS2IP(t.Bytes("fixture", "key.rnd", 32)))
			if d.Sign() == 0 {
				d = big.NewInt(5)
			}
		}
		s.PrivBytes = append(s.PrivBytes, ref.I2OSP32(d))
	}
	np := 1 + t.Choose("fixture", "npoints", 4)
	for i := 0; i < np; i++ {
		var enc []byte
		switch t.Choose("fixture", "pt.kind", 5) {
		case 0:
			enc = []byte{0}
		case 1:
			enc = ref.G().Compressed()
		default:
			k := ref.ModN(ref.OS2IP(t.Bytes("fixture", "pt.rnd", 32)))
			enc = ref.BaseMul(k).Uncompressed()
		}
		s.PointEncs = append(s.PointEncs, enc)
		var lam []byte
		if t.Bool("fixture", "pt.rescale") {
			v := ref.OS2IP(t.Bytes("fixture", "pt.lam", 32))
			v.Mod(v, new(big.Int).Sub(ref.P, big.NewInt(1)))
			lam = ref.I2OSP32(v.Add(v, big.NewInt(1)))
		}
		s.PointLambda = append(s.PointLambda, lam)
	}
	ns := 1 + t.Choose("fixture", "nscalars", 4)
	for i := 0; i < ns; i++ {
		var v *big.Int
		switch t.Choose("fixture", "sc.kind", 5) {
		case 0:
			v = big.NewInt(0)
		case 1:
			v = big.NewInt(1)
		case 2:
			v = nm1
		default:
			v = ref.ModN(ref.OS2IP(t.Bytes("fixture", "sc.rnd", 32)))
		}
		s.ScalarBytes = append(s.ScalarBytes, ref.I2OSP32(v))
	}
	for i := 0; i < 2; i++ {
		s.Digests = append(s.Digests, t.Bytes("fixture", "digest", 32))
		s.Msgs = append(s.Msgs, t.Bytes("fixture", "msg", []int{0, 32, 45}[t.Choose("fixture", "msglen", 3)]))
		s.DSTs = append(s.DSTs, append([]byte("QUUX-V01-CS02-with-secp256k1_XMD:SHA-256_SSWU_RO_"), byte(i)))
	}
	// two different oversize (> 255 bytes) domain separation tags: RFC 9380
	// hashes those down first, a separate code path
	for i := 0; i < 2; i++ {
		s.DSTs = append(s.DSTs, append(bytes.Repeat([]byte{byte('a' + i)}, 256+t.Choose("fixture", "longdst", 64)), byte(i)))
	}
	// an empty tag is refused by hash-to-curve: a failing call among the others
	s.DSTs = append(s.DSTs, []byte{})
	s.OptEnc = t.Choose("fixture", "opt.enc", 3)
	s.OptSelf = t.Bool("fixture", "opt.self")
	s.OptRejMal = t.Bool("fixture", "opt.rejmal")
	s.OptHashUnset = t.Bool("fixture", "opt.hashunset")
	return s
}

func mustScalarBytes(b []byte) *secp256k1.Scalar {
	s, err := secp256k1.NewScalarFromCanonicalBytes((*[32]byte)(b))
	if err != nil {
		panic("harness: fixture scalar not canonical")
	}
	return s
}

// Build constructs a fixture from its spec.  In cold mode no library code
// that touches the key or table paths runs here: the shared objects are
// byte strings and scalars only, and the tasks construct everything else.
func Build(s *Spec) (*Fixture, error) {
	fx := &Fixture{spec: s, digests: s.Digests, msgs: s.Msgs, dsts: s.DSTs}
	fx.opts = &secec.ECDSAOptions{Hash: crypto.SHA256, Encoding: secec.SignatureEncoding(s.OptEnc), SelfVerify: s.OptSelf, RejectMalleable: s.OptRejMal}
	if s.OptHashUnset {
		fx.opts.Hash = 0 // documented default: SHA-256
	}
	for _, b := range s.ScalarBytes {
		fx.scalars = append(fx.scalars, mustScalarBytes(b))
	}
	for _, b := range s.PrivBytes {
		fx.privEncs = append(fx.privEncs, append([]byte(nil), b...))
		d := ref.OS2IP(b)
		fx.modelD = append(fx.modelD, d)
		q := ref.BaseMul(d)
		fx.modelQ = append(fx.modelQ, q)
		// both points with this x coordinate: Q and -Q
		fx.pubEncs = append(fx.pubEncs, q.Compressed(), q.Uncompressed(), q.Neg().Compressed())
	}
	fx.badBytes = [][]byte{{}, {0x04, 0x01}, bytes.Repeat([]byte{0xff}, 33), bytes.Repeat([]byte{0x30}, 70)}
	if s.Cold {
		fx.addSpareCapacity()
		return fx, nil
	}
	for i, b := range s.PrivBytes {
		// The shared objects are only constructed, never used, before the
		// concurrent phase, so that any lazily computed per-object state -
		// including a private key's public half - is first touched by the
		// tasks.  Ready-made signatures, encodings and the standalone public
		// keys come from separate instances.
		k, err := secec.NewPrivateKey(b)
		if err != nil {
			return nil, fmt.Errorf("NewPrivateKey: %v", err)
		}
		if int(b[len(b)-1])/4%2 == 1 {
			// the other constructor of the same key (see `route` below)
			if k2, err := secec.NewPrivateKeyFromScalar(mustScalarBytes(b)); err == nil {
				k = k2
			}
		}
		fx.privs = append(fx.privs, k)
		// How an object came to be is a dimension of its own: the same
		// public key parsed from bytes, handed out by a private key object
		// (one made for the purpose, nobody else uses it) or built from a
		// point may differ in what it carries beside its value - spare
		// capacity, shared backing arrays, cached halves.  The route is a
		// function of the spec, so the solo-run clone takes the same one.
		route := int(b[len(b)-1]) % 4
		pk, err := secec.NewPublicKey(fx.modelQ[i].Uncompressed())
		if err != nil {
			return nil, fmt.Errorf("NewPublicKey: %v", err)
		}
		switch route {
		case 1:
			if own, err := secec.NewPrivateKey(b); err == nil {
				pk = own.PublicKey()
			}
		case 2:
			if pt, err := secp256k1.NewPointFromBytes(fx.modelQ[i].Compressed()); err == nil {
				if k2, err := secec.NewPublicKeyFromPoint(pt); err == nil {
					pk = k2
				}
			}
		case 3:
			if k2, err := secec.NewPublicKey(fx.modelQ[i].Compressed()); err == nil {
				pk = k2
			}
		}
		fx.pubs = append(fx.pubs, pk)
		sk, err := bitcoin.NewSchnorrPrivateKey(b)
		if err != nil {
			return nil, fmt.Errorf("NewSchnorrPrivateKey: %v", err)
		}
		if int(b[len(b)-1])/8%2 == 1 {
			if own, err := secec.NewPrivateKey(b); err == nil {
				sk = bitcoin.NewSchnorrPrivateKeyFromECDSA(own)
			}
		}
		fx.sprivs = append(fx.sprivs, sk)
		spk, err := bitcoin.NewSchnorrPublicKey(ref.I2OSP32(fx.modelQ[i].X))
		if err != nil {
			return nil, fmt.Errorf("NewSchnorrPublicKey: %v", err)
		}
		switch route {
		case 1:
			if own, err := bitcoin.NewSchnorrPrivateKey(b); err == nil {
				spk = own.PublicKey()
			}
		case 2:
			if own, err := secec.NewPrivateKey(b); err == nil {
				spk = bitcoin.NewSchnorrPrivateKeyFromECDSA(own).PublicKey()
			}
		case 3:
			if own, err := secec.NewPublicKey(fx.modelQ[i].Compressed()); err == nil {
				spk = bitcoin.NewSchnorrPublicKeyFromECDSA(own)
			}
		}
		fx.spubs = append(fx.spubs, spk)

		aux, _ := secec.NewPrivateKey(b)
		r, sg, v, err := aux.SignRaw(secec.RFC6979SHA256(), s.Digests[0])
		if err != nil {
			return nil, fmt.Errorf("SignRaw: %v", err)
		}
		fx.sigR, fx.sigS, fx.sigV = append(fx.sigR, r), append(fx.sigS, sg), append(fx.sigV, v)
		fx.sigASN1 = append(fx.sigASN1, secec.BuildASN1Signature(r, sg))
		fx.sigCompact = append(fx.sigCompact, secec.BuildCompactSignature(r, sg))
		fx.sigRec = append(fx.sigRec, secec.BuildCompactRecoverableSignature(r, sg, v))
		fx.sigBIP66 = append(fx.sigBIP66, append(secec.BuildASN1Signature(r, sg), 0x01))
		auxS, _ := bitcoin.NewSchnorrPrivateKey(b)
		ss, err := auxS.Sign(kernel.NewDevice(kernel.DevCfg{Payload: kernel.PayConst, Const: byte(i), ErrAt: -1}), s.Msgs[0], nil)
		if err != nil {
			return nil, fmt.Errorf("Schnorr Sign: %v", err)
		}
		fx.schSigs = append(fx.schSigs, ss)
		fx.pubEncs = append(fx.pubEncs, aux.PublicKey().ASN1Bytes())
	}
	// malformed signatures (they must be rejected, and rejecting them must
	// not disturb anybody else): r >= p / s >= n for Schnorr, r = 0 and
	// s >= n for ECDSA, truncated DER
	nBytes, pBytes := ref.I2OSP32(ref.N), ref.I2OSP32(ref.P)
	good := fx.schSigs[0]
	fx.schSigs = append(fx.schSigs,
		append(append([]byte(nil), pBytes...), good[32:]...),
		append(append([]byte(nil), good[:32]...), nBytes...),
		bytes.Repeat([]byte{0xff}, 64))
	fx.sigCompact = append(fx.sigCompact, make([]byte, 64), append(append([]byte(nil), fx.sigCompact[0][:32]...), nBytes...))
	fx.sigRec = append(fx.sigRec, make([]byte, 65), append(append(append([]byte(nil), fx.sigRec[0][:32]...), nBytes...), 0))
	fx.sigASN1 = append(fx.sigASN1, fx.sigASN1[0][:len(fx.sigASN1[0])-1], []byte{0x30, 0x06, 0x02, 0x01, 0x00, 0x02, 0x01, 0x01})
	fx.sigBIP66 = append(fx.sigBIP66, fx.sigASN1[0])
	fx.addSpareCapacity()
	// a public key that exists only as a public key
	if extra, err := secec.NewPublicKey(ref.BaseMul(big.NewInt(424242)).Compressed()); err == nil {
		fx.pubs = append(fx.pubs, extra)
	}
	for i, enc := range s.PointEncs {
		p, err := secp256k1.NewPointFromBytes(enc)
		if err != nil {
			return nil, fmt.Errorf("NewPointFromBytes: %v", err)
		}
		if lam := s.PointLambda[i]; lam != nil {
			if !secp256k1.VerifRescale(p, (*[32]byte)(lam)) {
				return nil, fmt.Errorf("VerifRescale failed")
			}
		}
		fx.points = append(fx.points, p)
	}
	// a shared batch with a zero scalar and the point at infinity in it
	for i := 0; i < 6; i++ {
		fx.msmScalars = append(fx.msmScalars, pick(fx.scalars, i))
		fx.msmPoints = append(fx.msmPoints, pick(fx.points, i))
	}
	fx.msmScalars = append(fx.msmScalars, secp256k1.NewScalar(), secp256k1.NewScalarFromUint64(3))
	fx.msmPoints = append(fx.msmPoints, secp256k1.NewGeneratorPoint(), secp256k1.NewIdentityPoint())
	return fx, nil
}

// Observe returns every caller-visible encoding of every shared object.
func (fx *Fixture) Observe() string {
	var sb strings.Builder
	for i, k := range fx.privs {
		fmt.Fprintf(&sb, "priv%d=%x/%x/%x;", i, k.Bytes(), k.Scalar().Bytes(), k.PublicKey().Bytes())
	}
	for i, k := range fx.pubs {
		fmt.Fprintf(&sb, "pub%d=%x/%x/%x;", i, k.Bytes(), k.CompressedBytes(), k.Point().UncompressedBytes())
	}
	for i, k := range fx.sprivs {
		fmt.Fprintf(&sb, "spriv%d=%x/%x;", i, k.Bytes(), k.PublicKey().Bytes())
	}
	for i, k := range fx.spubs {
		fmt.Fprintf(&sb, "spub%d=%x/%x;", i, k.Bytes(), k.Point().UncompressedBytes())
	}
	for i, p := range fx.points {
		fmt.Fprintf(&sb, "pt%d=%x/%x;", i, p.UncompressedBytes(), p.CompressedBytes())
	}
	for i, s := range fx.scalars {
		fmt.Fprintf(&sb, "sc%d=%x;", i, s.Bytes())
	}
	fmt.Fprintf(&sb, "opts=%d/%d/%v/%v;", fx.opts.Hash, fx.opts.Encoding, fx.opts.SelfVerify, fx.opts.RejectMalleable)
	for i := range fx.msmScalars {
		fmt.Fprintf(&sb, "msm%d=%x*%x;", i, fx.msmScalars[i].Bytes(), fx.msmPoints[i].CompressedBytes())
	}
	for _, group := range [][][]byte{fx.digests, fx.msgs, fx.dsts, fx.sigASN1, fx.sigCompact, fx.sigRec, fx.sigBIP66, fx.schSigs, fx.pubEncs, fx.privEncs, fx.badBytes} {
		for _, b := range group {
			fmt.Fprintf(&sb, "%x,", b)
		}
		sb.WriteByte(';')
	}
	for i := range fx.sigR {
		fmt.Fprintf(&sb, "sig%d=%x/%x/%d;", i, fx.sigR[i].Bytes(), fx.sigS[i].Bytes(), fx.sigV[i])
	}
	return sb.String()
}

// ObserveRaw returns the raw projective coordinates of the shared points.
// Probe only: a correctly synchronised in-place renormalisation would change
// them without breaking the property.
func (fx *Fixture) ObserveRaw() string {
	var sb strings.Builder
	for i, p := range fx.points {
		x, y, z, v := secp256k1.VerifRawCoords(p)
		fmt.Fprintf(&sb, "pt%d=%x%x%x%v;", i, x, y, z, v)
	}
	return sb.String()
}

// addSpareCapacity gives every shared byte string its own backing array with
// spare capacity behind its length: a library that appends to a caller's
// slice then writes into memory that all callers share.
func (fx *Fixture) addSpareCapacity() {
	for _, group := range []*[][]byte{&fx.digests, &fx.msgs, &fx.dsts, &fx.sigASN1, &fx.sigCompact, &fx.sigRec, &fx.sigBIP66, &fx.schSigs, &fx.pubEncs, &fx.privEncs, &fx.badBytes} {
		ng := make([][]byte, len(*group))
		for i, b := range *group {
			nb := make([]byte, len(b), len(b)+96)
			copy(nb, b)
			ng[i] = nb
		}
		*group = ng
	}
}
