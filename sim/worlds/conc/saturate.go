package conc

import (
	"crypto/sha256"
	"encoding/binary"
	"fmt"

	secp256k1 "gitlab.com/yawning/secp256k1-voi"
	"gitlab.com/yawning/secp256k1-voi/secec"
	"gitlab.com/yawning/secp256k1-voi/secec/bitcoin"
	"gitlab.com/yawning/secp256k1-voi/secec/h2c"
)

// Saturate gives the process a past: before its first simulated run, one
// caller does a few hundred DISTINCT things of every kind a library might
// remember - points decoded and multiplied, keys built and used, signatures
// verified, names pre-hashed, tags hashed to the curve.  Whatever bounded
// memo, ring, pool or table a changed library keeps is full afterwards, so
// the simulated callers meet its eviction, trimming and "table is full"
// paths rather than its first-use paths.  On the unchanged tree (no state
// between calls) it changes nothing.  Single goroutine, no tape: the same in
// every process that does it.
func Saturate() {
	defer func() { _ = recover() }() // a library that panics here will do so under the oracles too
	const n = 300
	g := secp256k1.NewGeneratorPoint()
	var points []*secp256k1.Point
	var scalars []*secp256k1.Scalar
	for i := 1; i <= n; i++ {
		h := sha256.Sum256(binary.BigEndian.AppendUint64([]byte("verif saturate"), uint64(i)))
		s, _ := secp256k1.NewScalarFromBytes(&h)
		p := secp256k1.NewIdentityPoint().ScalarBaseMult(s)
		// through every encoding and back
		if q, err := secp256k1.NewPointFromBytes(p.CompressedBytes()); err == nil {
			p = q
		}
		_, _ = secp256k1.NewPointFromBytes(p.UncompressedBytes())
		_ = secp256k1.NewIdentityPoint().ScalarMult(s, p)
		points, scalars = append(points, p), append(scalars, s)
	}
	for off := 0; off+60 <= n; off += 60 {
		_ = secp256k1.NewIdentityPoint().MultiScalarMultVartime(scalars[off:off+60], points[off:off+60])
		_ = secp256k1.NewIdentityPoint().MultiScalarMult(scalars[off:off+33], points[off:off+33])
		_ = secp256k1.NewIdentityPoint().DoubleScalarMultBasepointVartime(scalars[off], scalars[off+1], points[off])
	}
	_ = g
	for i := 0; i < 40; i++ {
		b := scalars[i].Bytes()
		k, err := secec.NewPrivateKey(b)
		if err != nil {
			continue
		}
		dg := sha256.Sum256(b)
		r, s, v, err := k.SignRaw(secec.RFC6979SHA256(), dg[:])
		if err == nil {
			pub := k.PublicKey()
			_ = pub.VerifyRaw(dg[:], r, s)
			_ = bitcoin.VerifyASN1(pub, dg[:], append(secec.BuildASN1Signature(r, s), 0x01))
			_, _ = secec.RecoverPublicKey(dg[:], r, s, v)
			_, _ = k.ECDH(pub)
			if pk2, err := secec.NewPublicKey(pub.CompressedBytes()); err == nil {
				_ = pk2.Equal(pub)
				_ = bitcoin.NewSchnorrPublicKeyFromECDSA(pk2)
			}
		}
		sk := bitcoin.NewSchnorrPrivateKeyFromECDSA(k)
		if sig, err := sk.Sign(secec.RFC6979SHA256(), dg[:], nil); err == nil {
			_ = sk.PublicKey().Verify(dg[:], sig)
		} else if sig, err := sk.Sign(zeroReader{}, dg[:], nil); err == nil {
			_ = sk.PublicKey().Verify(dg[:], sig)
		}
		if spk, err := bitcoin.NewSchnorrPublicKey(sk.PublicKey().Bytes()); err == nil {
			_ = spk.Equal(sk.PublicKey())
		}
	}
	for i := 0; i < n; i++ {
		_, _ = bitcoin.PreHashSchnorrMessage(fmt.Sprintf("verif/saturate/%d", i), []byte("m"))
	}
	for i := 0; i < 40; i++ {
		dst := []byte(fmt.Sprintf("VERIF-SATURATE-%d-secp256k1_XMD:SHA-256_SSWU_RO_", i))
		_, _ = h2c.Secp256k1_XMD_SHA256_SSWU_RO(dst, []byte("m"))
		_, _ = h2c.Secp256k1_XMD_SHA256_SSWU_NU(dst, []byte("m"))
	}
}

// SaturateFor: does the process whose first run index is jobFrom start
// with the saturating past?  (Replays derive it from the same index.)
func SaturateFor(jobFrom int) bool { return (jobFrom/11)%3 == 1 }

// SaturateBefore: in such a process the past is refreshed before the first
// and every fourth run after it, so that the maintenance paths a full memo
// sends its next caller down (trim, evict, rehash) are met by the simulated
// callers of many runs, not of the process's first run only.
func SaturateBefore(jobFrom, idx int) bool { return SaturateFor(jobFrom) && (idx-jobFrom)%4 == 0 }

type zeroReader struct{}

func (zeroReader) Read(p []byte) (int, error) {
	for i := range p {
		p[i] = 0
	}
	return len(p), nil
}
