package conc

import (
	crand "crypto/rand"
	"fmt"
	"math/big"
	"sort"
	"strings"

	"verif/sim/kernel"
	"verif/sim/ref"
)

const (
	maxTasks = 6
	maxOps   = 6
)

// Params are supplied by cmd/simconc.
type Params struct {
	NSites  int
	SetHook func(func(uint32)) // installs the yield hook (verifsim.Hook)
	// SetBlockHook installs the lock-contention hook (verifsim.BlockHook)
	SetBlockHook func(func(uint32))
	// SetSyncHook installs the synchronisation-point hook (verifsim.SyncHook)
	SetSyncHook func(func(uint32))
	Idx         int
}

func allowedKinds(cold bool) []int {
	var out []int
	for i, k := range opKinds {
		if (cold && k.cold) || (!cold && k.warm) {
			out = append(out, i)
		}
	}
	return out
}

func execOp(fx *Fixture, o *Op, c *ctx) (res string) {
	defer func() {
		if e := recover(); e != nil {
			res = fmt.Sprintf("PANIC:%v", e)
		}
	}()
	return opKinds[o.Kind].run(fx, o, c)
}

// Run executes one simulated run of the conc world.
func Run(run *kernel.Run, p Params) {
	t := run.T
	cold := p.Idx%8 == 0
	spec := DrawSpec(t, cold)
	kinds := allowedKinds(cold)

	// swarm: a small focus set of operation kinds and objects, so that most
	// runs have several tasks doing the same thing to the same object
	nFocus := 1 + t.Choose("cfg", "nfocus", 3)
	var focus []int
	for i := 0; i < nFocus; i++ {
		focus = append(focus, kinds[t.Choose("cfg", "focus", len(kinds))])
	}
	focusObj := [3]int{t.Choose("cfg", "fobjA", 4), t.Choose("cfg", "fobjB", 4), t.Choose("cfg", "fobjC", 4)}
	// depth 2 (thorough tier): up to 8 callers x 8 operations
	mt, mo := maxTasks+2*(kernel.Depth-1), maxOps+2*(kernel.Depth-1)
	nTasks := 2 + t.Choose("cfg", "ntasks", mt-1)
	// a crowd: one run in eight has 9..12 callers with one operation each,
	// nearly all of the focus kinds (bounded pools, semaphores and fallback
	// paths of a library only show when more callers are in flight than it
	// planned for)
	crowd := t.Chance("cfg", "crowd", 1, 6)
	if crowd {
		nTasks = 9 + t.Choose("cfg", "ncrowd", 4)
		mo = 1
		run.Fault("crowd_of_callers")
		// ... all doing variants of one thing: the focus becomes the family
		// of the first focus kind (every kind whose name starts the same way:
		// "MultiScalarMult", "Sign", "cold:", ...)
		family := opKinds[focus[0]].name
		if i := strings.IndexAny(family, "(:/ +"); i > 0 {
			family = family[:i]
		}
		if t.Bool("cfg", "crowd.family") {
			focus = focus[:0]
			for _, k := range kinds {
				if strings.HasPrefix(opKinds[k].name, family) {
					focus = append(focus, k)
				}
			}
		} else {
			focus = focus[:1] // ... or all exactly the same thing
		}
	}
	ops := make([][]*Op, nTasks)
	for ti := 0; ti < nTasks; ti++ {
		st := fmt.Sprintf("t%d.ops", ti)
		for len(ops[ti]) < mo && (t.Choose(st, "more", 4+2*(kernel.Depth-1)) != 0 || len(ops[ti]) == 0) {
			o := &Op{}
			if t.Chance(st, "offfocus", 1, 4) && !(crowd && ti > 0) {
				o.Kind = kinds[t.Choose(st, "kind", len(kinds))]
			} else {
				o.Kind = focus[t.Choose(st, "fkind", len(focus))]
			}
			if t.Chance(st, "offobj", 1, 4) {
				o.A, o.B, o.C = t.Choose(st, "a", 8), t.Choose(st, "b", 8), t.Choose(st, "c", 8)
			} else {
				o.A, o.B, o.C = focusObj[0], focusObj[1], focusObj[2]
				// ... sometimes with the first two objects the other way
				// round: x.Op(y) in one caller while y.Op(x) runs in another
				// (per-object locks taken in argument order)
				if t.Chance(st, "mirror", 1, 4) {
					o.A, o.B = o.B, o.A
				}
			}
			o.Seed = t.U64(st, "seed")
			ops[ti] = append(ops[ti], o)
		}
	}
	// ... and, in half of the crowds, everybody with a key object of its
	// own (per-object slots, rings and tables that a library sizes for "a
	// few keys" only show when more key objects are in use at once than
	// that): the fixture gets one private key per caller
	if crowd && !cold && t.Bool("cfg", "crowd.ownkeys") {
		for len(spec.PrivBytes) < nTasks {
			d := ref.ModN(ref.OS2IP(t.Bytes("fixture", "crowd.key", 32)))
			if d.Sign() == 0 {
				d = big.NewInt(7)
			}
			spec.PrivBytes = append(spec.PrivBytes, ref.I2OSP32(d))
		}
		for ti := range ops {
			for _, o := range ops[ti] {
				o.A = ti
			}
		}
		run.Fault("crowd_with_a_key_object_per_caller")
	}
	// reach: how many (kind, objects) are performed by >= 2 tasks
	shared := map[string]map[int]bool{}
	for ti, l := range ops {
		for _, o := range l {
			k := fmt.Sprintf("%d/%d/%d", o.Kind, o.A, o.B)
			if shared[k] == nil {
				shared[k] = map[int]bool{}
			}
			shared[k][ti] = true
		}
	}
	for _, m := range shared {
		if len(m) >= 2 {
			run.Probe("same_op_same_object_in_2plus_tasks")
			break
		}
	}

	fx, err := Build(spec)
	if err != nil {
		run.Violate("HARNESS", "fixture-build", "conc", 0, "%v", err)
		return
	}
	fxRef, _ := Build(spec)
	fxObs, _ := Build(spec)
	wantObs := fxObs.Observe()
	wantRaw := fxObs.ObserveRaw()

	// expected length of the run and the typical length of one operation
	// (from the per-kind costs): preemption quanta are drawn relative to them,
	// so that short operations (a 50-step accessor) are cut into pieces as
	// often as long ones (a 500 000-step batch multiplication)
	estSteps := uint64(0)
	var costs []int
	for _, l := range ops {
		for _, o := range l {
			c := opKinds[o.Kind].cost
			if c <= 0 {
				c = 10000
			}
			estSteps += uint64(c)
			costs = append(costs, c)
		}
	}
	sort.Ints(costs)
	typical := costs[len(costs)/2]
	cfg := kernel.DrawSchedCfg(t, nTasks, estSteps, typical)
	if crowd && t.Chance("cfg", "crowd.overlap", 3, 4) {
		// the point of a crowd is that everybody is in flight at once:
		// round robin or uniform quanta well below one operation
		cfg.Policy = []int{kernel.PolRR, kernel.PolUniform}[t.Choose("cfg", "crowd.policy", 2)]
		if m := typical >> uint(3+t.Choose("cfg", "crowd.quantum_log2", 4)); m < cfg.Mean {
			cfg.Mean = m
		}
		if lo := int(estSteps / 40000); cfg.Mean < lo {
			cfg.Mean = lo
		}
		if cfg.Mean < 1 {
			cfg.Mean = 1
		}
	}
	s := kernel.NewSched(t, cfg, p.NSites)
	results := make([][]string, nTasks)
	for ti := 0; ti < nTasks; ti++ {
		ti := ti
		results[ti] = make([]string, len(ops[ti]))
		s.Go(func(tk *kernel.Task) {
			c := &ctx{yield: func() { s.Yield(0) }}
			for i, o := range ops[ti] {
				s.OpBegin(tk)
				results[ti][i] = execOp(fx, o, c)
				s.OpEnd(tk)
			}
		})
	}
	run.Res.Cfg["cold"] = cold
	run.Res.Cfg["tasks"] = nTasks
	run.Res.Cfg["sched"] = cfg
	run.Res.Cfg["policy"] = kernel.PolicyNames[cfg.Policy]

	// the system entropy source is a seam too: operations with rand == nil
	// and key generation draw from a deterministic reader (the real one would
	// make step counts, and hence schedules, differ from process to process)
	sysSeed := t.U64("cfg", "system_entropy_seed")
	realRand := crand.Reader
	crand.Reader = kernel.NewSharedEntropy(sysSeed)
	defer func() { crand.Reader = realRand }()

	// ---- concurrent phase FIRST (cold objects, and cold package state in
	// the first run of a process)
	p.SetHook(s.Yield)
	if p.SetBlockHook != nil {
		p.SetBlockHook(s.Blocked)
	}
	if p.SetSyncHook != nil {
		p.SetSyncHook(s.SyncPoint)
	}
	s.Run()
	p.SetHook(nil)
	if p.SetBlockHook != nil {
		p.SetBlockHook(nil)
	}
	if p.SetSyncHook != nil {
		p.SetSyncHook(nil)
	}

	run.Res.Steps = int(s.Steps)
	run.Res.Sig = s.Sig()
	run.Res.FreeRun = s.FreeRun
	run.Fault("preemption:" + kernel.PolicyNames[cfg.Policy])
	run.Res.Faults["preemptions"] += s.Switches
	if s.GCs > 0 {
		run.Res.Faults["gc_at_yield"] += s.GCs
	}
	if s.Stalled > 0 {
		run.Res.Faults["stalled_task"]++
		run.Res.Probes["steps_while_one_task_starved"] += int(s.Stalled)
	}
	if s.FreeRun {
		run.Fault("freerun_fallback")
	}
	if s.Foreign > 0 {
		// the library ran goroutines of its own: they run free (the race
		// detector still sees them), the run is not exactly repeatable
		run.Res.Probes["handoff_points_reached_by_library_goroutines"] += s.Foreign
		run.Res.FreeRun = true
	}
	if s.Naps > 0 {
		run.Res.Faults["caller_stalled_after_synchronisation_point"] += s.Naps
	}
	if s.SyncSwitches > 0 {
		run.Res.Faults["switch_forced_at_synchronisation_point"] += s.SyncSwitches
	}
	if s.LockWaits > 0 {
		run.Res.Faults["lock_contention_deschedules"] += s.LockWaits
	}
	run.Res.Probes["distinct_preemption_sites"] = len(s.PreemptAt)
	run.Res.Probes["distinct_site_pairs"] = len(s.Pairs)
	covered := 0
	for _, h := range s.SiteHits {
		if h > 0 {
			covered++
		}
	}
	run.Res.Probes["yield_sites_hit"] = covered
	// bitmap of sites at which a preemption happened (for the union over runs)
	run.Res.Cfg["preempt_sites"] = siteList(s.PreemptAt)
	run.Res.Cfg["hit_sites"] = hitBitmap(s.SiteHits)

	if s.Deadlock {
		var waiting []string
		for _, tk := range s.Tasks {
			if tk.BlockedSite != 0 {
				waiting = append(waiting, fmt.Sprintf("task %d at lock site %d", tk.ID, tk.BlockedSite))
			}
		}
		run.Violate("C20", "deadlock", "conc", 0, "tasks did not finish after the scheduler released everything (free-run fall-back): a caller blocks forever; last seen waiting for a lock: %s (site numbers are those of sites.json of the instrumenter; ./check --replay prints file:line)", strings.Join(waiting, ", "))
		return
	}
	if s.StepCapHit {
		run.Violate("C20", "no-progress", "conc", 0, "the run passed %d yield points without finishing (livelock)", s.Steps)
	}

	// ---- solo reference: the same operations, one at a time, on an
	// independent clone, counting yield points
	// (the counter is bumped through a //go:norace method: a library that
	// runs goroutines of its own passes yield points on them too)
	var soloCtr stepCounter
	crand.Reader = kernel.NewSharedEntropy(sysSeed)
	p.SetHook(soloCtr.inc)
	solo := make([][]string, nTasks)
	soloOpSteps := make([][]uint64, nTasks)
	for ti := range ops {
		c := &ctx{}
		for _, o := range ops[ti] {
			before := soloCtr.get()
			solo[ti] = append(solo[ti], execOp(fxRef, o, c))
			soloOpSteps[ti] = append(soloOpSteps[ti], soloCtr.get()-before)
		}
	}
	p.SetHook(nil)

	// ---- history
	run.Hist("cold=%v tasks=%d spec: keys=%d points=%d scalars=%d", cold, nTasks, len(spec.PrivBytes), len(spec.PointEncs), len(spec.ScalarBytes))
	for ti := range ops {
		for i, o := range ops[ti] {
			run.Res.Ops++
			run.Probe("op:" + opKinds[o.Kind].name)
			run.ProbeN("solo_steps:"+opKinds[o.Kind].name, int(soloOpSteps[ti][i]))
			run.Hist("task %d op %d %s(a=%d b=%d c=%d) -> %s", ti, i, opKinds[o.Kind].name, o.A, o.B, o.C, results[ti][i])
		}
	}
	run.Note("schedule: policy=%s switches=%d steps=%d sig=%s gc=%d freerun=%v", kernel.PolicyNames[cfg.Policy], s.Switches, s.Steps, s.Sig(), s.GCs, s.FreeRun)

	// ---- oracles
	for ti, tk := range s.Tasks {
		if tk.Panic != "" {
			run.Violate("C20", "task-panic", "conc", ti, "task %d panicked outside an operation: %s", ti, tk.Panic)
		}
		for i, o := range ops[ti] {
			name := opKinds[o.Kind].name
			got, want := results[ti][i], solo[ti][i]
			if strings.HasPrefix(got, "PANIC:") && !strings.HasPrefix(want, "PANIC:") {
				run.Violate("C20", "panic-under-concurrency", name, ti, "task %d op %d %s panicked when run concurrently (%s) but not when run alone", ti, i, name, got)
				continue
			}
			if got != want {
				run.Violate("C20", "result-differs-from-solo-run", name, ti, "task %d op %d %s(a=%d b=%d c=%d): concurrent result %s, the same call run alone on an independent clone gives %s", ti, i, name, o.A, o.B, o.C, got, want)
			}
			if strings.HasPrefix(got, "valid=") && got != "valid=1" && want != "valid=1" {
				// invalid also when run alone: not a concurrency defect
				run.Probe("invalid_output_also_when_run_alone:" + name)
			} else if strings.HasPrefix(got, "valid=") && got != "valid=1" {
				run.Violate("C20", "invalid-output-under-concurrency", name, ti, "task %d op %d %s produced an invalid output under concurrency", ti, i, name)
			}
			// step-bounded progress (deterministic: steps are yield points)
			if !s.FreeRun && i < len(tk.OpSteps) {
				cs, ss := tk.OpSteps[i], soloOpSteps[ti][i]
				if cs > 100*ss+10000 {
					run.Violate("C20", "no-progress", name, ti, "task %d op %d %s needed %d steps under concurrency, %d alone (bound 100x + 10000)", ti, i, name, cs, ss)
				}
				if cs != ss {
					run.Probe("op_step_count_differs_from_solo")
				}
			}
		}
	}
	if fx.ObserveRaw() != wantRaw {
		run.Probe("shared_point_raw_representation_changed")
	}
	if got := fx.Observe(); got != wantObs {
		was, now := abbreviate(wantObs, got)
		run.Violate("C20", "shared-object-changed", "fixture", 0, "the encodings of the shared objects changed during the concurrent phase:\n  before: %s\n  after:  %s", was, now)
	}
}

func abbreviate(a, b string) (string, string) {
	as, bs := strings.Split(a, ";"), strings.Split(b, ";")
	for i := range as {
		if i < len(bs) && as[i] != bs[i] {
			return as[i], bs[i]
		}
	}
	return a, b
}

func siteList(m map[uint32]int) []int {
	out := make([]int, 0, len(m))
	for k := range m {
		out = append(out, int(k))
	}
	sort.Ints(out)
	return out
}

func hitBitmap(h []uint32) string {
	b := make([]byte, (len(h)+7)/8)
	for i, v := range h {
		if v > 0 {
			b[i/8] |= 1 << uint(i%8)
		}
	}
	return kernel.Hex(b)
}

// stepCounter counts yield points in the solo phase.
type stepCounter struct{ n uint64 }

//go:norace
//go:noinline
func (c *stepCounter) inc(uint32) { c.n++ }

//go:norace
//go:noinline
func (c *stepCounter) get() uint64 { return c.n }
