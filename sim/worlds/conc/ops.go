package conc

import (
	"crypto"
	"fmt"
	"math/big"
	"strings"

	secp256k1 "gitlab.com/yawning/secp256k1-voi"
	"gitlab.com/yawning/secp256k1-voi/secec"
	"gitlab.com/yawning/secp256k1-voi/secec/bitcoin"
	"gitlab.com/yawning/secp256k1-voi/secec/h2c"

	"verif/sim/kernel"
	"verif/sim/ref"
)

// Op is one drawn operation of a task: the kind plus small integers that
// select shared objects (taken modulo the number available).
type Op struct {
	Kind    int    `json:"k"`
	A, B, C int    `json:",omitempty"`
	Seed    uint64 `json:",omitempty"`
}

// ctx is what an operation may use besides the fixture.
type ctx struct {
	yield func() // device reads yield through this (nil in the solo phase)
}

// failing returns a device that delivers seed%32 bytes and then fails.
func (c *ctx) failing(seed uint64) *kernel.Device {
	cfg := kernel.Healthy(seed)
	cfg.ErrAt = int(seed % 32)
	cfg.ErrKind = kernel.ErrCustom
	d := kernel.NewDevice(cfg)
	d.Yield = c.yield
	return d
}

func (c *ctx) device(seed uint64, chunked bool) *kernel.Device {
	cfg := kernel.Healthy(seed)
	if chunked {
		cfg.Chunks = []int{7, 0, 11}
	}
	d := kernel.NewDevice(cfg)
	d.Yield = c.yield
	return d
}

// signingReader is an entropy source that itself uses the library: before
// it delivers, it signs with another key and another caller-supplied reader
// (a hardware-backed generator that authenticates its requests, say).  Legal,
// and fatal for a library that holds a lock while it calls the caller's
// reader.
type signingReader struct {
	inner  *secec.PrivateKey
	dev    *kernel.Device // the inner signature's own entropy
	out    *kernel.Device // what this reader delivers
	digest []byte
	calls  int
}

func (r *signingReader) Read(p []byte) (int, error) {
	r.calls++
	sig, err := r.inner.Sign(r.dev, r.digest, nil)
	if err != nil {
		return 0, err
	}
	n, err := r.out.Read(p)
	if n > 0 {
		p[0] ^= sig[len(sig)-1] // the delivered bytes depend on the inner signature
	}
	return n, err
}

type opKind struct {
	name string
	cost int  // typical number of yield points (measured on the unchanged tree; scales the preemption quanta)
	cold bool // usable on a cold fixture (bytes and scalars only)
	warm bool // usable on a warm fixture
	// randomised: output is not reproducible (rand == nil); run returns a validity verdict instead
	run func(fx *Fixture, o *Op, c *ctx) string
}

func pick[T any](xs []T, i int) T { return xs[((i%len(xs))+len(xs))%len(xs)] }

// own renders a byte slice that an operation handed out and then
// overwrites it: the bytes are the caller's, nobody else may be looking.
func own(b []byte) string {
	s := hx(b)
	for i := range b {
		b[i] ^= 0xff
	}
	return s
}

func b2s(b bool) string {
	if b {
		return "1"
	}
	return "0"
}

func errStr(err error) string {
	if err != nil {
		return "err"
	}
	return "ok"
}

var opKinds []opKind

func init() {
	P := func() *secp256k1.Point { return secp256k1.NewIdentityPoint() }
	opKinds = []opKind{
		// ---------------- ECDSA
		{name: "Sign(device)", cost: 13692, warm: true, run: func(fx *Fixture, o *Op, c *ctx) string {
			sig, err := pick(fx.privs, o.A).Sign(c.device(o.Seed, o.C%2 == 1), pick(fx.digests, o.B), fx.opts)
			return fmt.Sprintf("%x/%s", sig, errStr(err))
		}},
		{name: "Sign(RFC6979)", cost: 14119, warm: true, run: func(fx *Fixture, o *Op, c *ctx) string {
			sig, err := pick(fx.privs, o.A).Sign(secec.RFC6979SHA256(), pick(fx.digests, o.B), fx.opts)
			return fmt.Sprintf("%x/%s", sig, errStr(err))
		}},
		{name: "SignRaw(device)", cost: 9261, warm: true, run: func(fx *Fixture, o *Op, c *ctx) string {
			r, s, v, err := pick(fx.privs, o.A).SignRaw(c.device(o.Seed, false), pick(fx.digests, o.B))
			if err != nil {
				return "err"
			}
			return fmt.Sprintf("%x/%x/%d", r.Bytes(), s.Bytes(), v)
		}},
		{name: "Sign(rand=nil)", cost: 9262, warm: true, run: func(fx *Fixture, o *Op, c *ctx) string {
			i := ((o.A % len(fx.privs)) + len(fx.privs)) % len(fx.privs)
			dg := pick(fx.digests, o.B)
			r, s, _, err := fx.privs[i].SignRaw(nil, dg)
			if err != nil {
				return "err"
			}
			e, _ := ref.DigestToE(dg)
			return "valid=" + b2s(ref.ECDSAVerify(fx.modelQ[i], e, ref.OS2IP(r.Bytes()), ref.OS2IP(s.Bytes())))
		}},
		{name: "Verify(ASN1)", cost: 14350, warm: true, run: func(fx *Fixture, o *Op, c *ctx) string {
			i := o.A
			return b2s(pick(fx.pubs, o.B).Verify(fx.digests[0], pick(fx.sigASN1, i), nil))
		}},
		{name: "Verify(opts)", cost: 14862, warm: true, run: func(fx *Fixture, o *Op, c *ctx) string {
			var sig []byte
			switch fx.opts.Encoding {
			case secec.EncodingASN1:
				sig = pick(fx.sigASN1, o.A)
			case secec.EncodingCompact:
				sig = pick(fx.sigCompact, o.A)
			default:
				sig = pick(fx.sigRec, o.A)
			}
			return b2s(pick(fx.pubs, o.B).Verify(pick(fx.digests, o.C), sig, fx.opts))
		}},
		{name: "VerifyRaw", cost: 23865, warm: true, run: func(fx *Fixture, o *Op, c *ctx) string {
			return b2s(pick(fx.pubs, o.B).VerifyRaw(pick(fx.digests, o.C), pick(fx.sigR, o.A), pick(fx.sigS, o.A)))
		}},
		{name: "bitcoin.VerifyASN1", cost: 16803, warm: true, run: func(fx *Fixture, o *Op, c *ctx) string {
			return b2s(bitcoin.VerifyASN1(pick(fx.pubs, o.B), fx.digests[0], pick(fx.sigBIP66, o.A)))
		}},
		{name: "RecoverPublicKey", cost: 24484, warm: true, run: func(fx *Fixture, o *Op, c *ctx) string {
			q, err := secec.RecoverPublicKey(pick(fx.digests, o.C), pick(fx.sigR, o.A), pick(fx.sigS, o.A), pick(fx.sigV, o.A)^byte(o.B&1))
			if err != nil {
				return "err"
			}
			return hx(q.Bytes())
		}},
		{name: "ECDH", cost: 20488, warm: true, run: func(fx *Fixture, o *Op, c *ctx) string {
			ss, err := pick(fx.privs, o.A).ECDH(pick(fx.pubs, o.B))
			return fmt.Sprintf("%x/%s", ss, errStr(err))
		}},
		// ---------------- Schnorr
		{name: "SchnorrSign(device)", cost: 17294, warm: true, run: func(fx *Fixture, o *Op, c *ctx) string {
			sig, err := pick(fx.sprivs, o.A).Sign(c.device(o.Seed, o.C%2 == 1), pick(fx.msgs, o.B), nil)
			return fmt.Sprintf("%x/%s", sig, errStr(err))
		}},
		{name: "SchnorrSign(rand=nil)", cost: 17295, warm: true, run: func(fx *Fixture, o *Op, c *ctx) string {
			i := ((o.A % len(fx.sprivs)) + len(fx.sprivs)) % len(fx.sprivs)
			msg := pick(fx.msgs, o.B)
			sig, err := fx.sprivs[i].Sign(nil, msg, nil)
			if err != nil {
				return "err"
			}
			return "valid=" + b2s(ref.BIP340Verify(ref.I2OSP32(fx.modelQ[i].X), msg, sig))
		}},
		{name: "SchnorrVerify", cost: 11024, warm: true, run: func(fx *Fixture, o *Op, c *ctx) string {
			return b2s(pick(fx.spubs, o.B).Verify(pick(fx.msgs, o.C), pick(fx.schSigs, o.A)))
		}},
		// ---------------- multiplication on shared operands, private receivers
		{name: "ScalarMult", cost: 20358, warm: true, run: func(fx *Fixture, o *Op, c *ctx) string {
			return hx(P().ScalarMult(pick(fx.scalars, o.A), pick(fx.points, o.B)).CompressedBytes())
		}},
		{name: "ScalarBaseMult", cost: 8429, warm: true, cold: true, run: func(fx *Fixture, o *Op, c *ctx) string {
			return hx(P().ScalarBaseMult(pick(fx.scalars, o.A)).CompressedBytes())
		}},
		{name: "DoubleScalarMultBasepointVartime", cost: 17530, warm: true, run: func(fx *Fixture, o *Op, c *ctx) string {
			return hx(P().DoubleScalarMultBasepointVartime(pick(fx.scalars, o.A), pick(fx.scalars, o.C), pick(fx.points, o.B)).CompressedBytes())
		}},
		{name: "MultiScalarMult", cost: 37691, warm: true, run: func(fx *Fixture, o *Op, c *ctx) string {
			n := 2 + o.C%2
			var ss []*secp256k1.Scalar
			var ps []*secp256k1.Point
			for i := 0; i < n; i++ {
				ss = append(ss, pick(fx.scalars, o.A+i))
				ps = append(ps, pick(fx.points, o.B+i))
			}
			if o.C%4 >= 2 {
				return hx(P().MultiScalarMultVartime(ss, ps).CompressedBytes())
			}
			return hx(P().MultiScalarMult(ss, ps).CompressedBytes())
		}},
		{name: "MultiScalarMult(private receiver among the points)", cost: 38000, warm: true, run: func(fx *Fixture, o *Op, c *ctx) string {
			p := secp256k1.NewPointFrom(pick(fx.points, o.B)) // the caller's own object: receiver and first term
			ss := []*secp256k1.Scalar{pick(fx.scalars, o.A), pick(fx.scalars, o.A+1)}
			ps := []*secp256k1.Point{p, pick(fx.points, o.B+1)}
			if o.C%2 == 1 {
				ss, ps = append(ss, pick(fx.scalars, o.A+2)), append(ps, p)
			}
			if o.C%4 >= 2 {
				p.MultiScalarMultVartime(ss, ps)
			} else {
				p.MultiScalarMult(ss, ps)
			}
			return hx(p.CompressedBytes())
		}},
		{name: "Sign(reader that signs)", cost: 28000, warm: true, run: func(fx *Fixture, o *Op, c *ctx) string {
			rd := &signingReader{inner: pick(fx.privs, o.B), dev: c.device(o.Seed+1, false), out: c.device(o.Seed, o.C%2 == 1), digest: pick(fx.digests, o.C)}
			sig, err := pick(fx.privs, o.A).Sign(rd, pick(fx.digests, o.B), fx.opts)
			return fmt.Sprintf("%x/%s/%d", sig, errStr(err), rd.calls)
		}},
		// ---------------- group law on shared operands, private receivers
		{name: "Add/Subtract/Double/Negate", cost: 458, warm: true, run: func(fx *Fixture, o *Op, c *ctx) string {
			a, b := pick(fx.points, o.A), pick(fx.points, o.B)
			switch o.C % 6 {
			case 0:
				return own(P().Add(a, b).UncompressedBytes())
			case 1:
				return own(P().Subtract(a, b).UncompressedBytes())
			case 2:
				return hx(P().Double(a).UncompressedBytes())
			case 3:
				return hx(P().Negate(a).UncompressedBytes())
			case 4:
				return hx(P().ConditionalNegate(a, uint64(o.B&1)).UncompressedBytes())
			default:
				return hx(P().ConditionalSelect(a, b, uint64(o.Seed&1)).UncompressedBytes())
			}
		}},
		{name: "Equal/IsIdentity/IsYOdd", cost: 490, warm: true, run: func(fx *Fixture, o *Op, c *ctx) string {
			a, b := pick(fx.points, o.A), pick(fx.points, o.B)
			return fmt.Sprintf("%d%d%d", a.Equal(b), a.IsIdentity(), a.IsYOdd())
		}},
		{name: "Point encoders", cost: 1116, warm: true, run: func(fx *Fixture, o *Op, c *ctx) string {
			a := pick(fx.points, o.A)
			x, err := a.XBytes()
			return fmt.Sprintf("%s/%s/%s/%s", own(a.UncompressedBytes()), own(a.CompressedBytes()), own(x), errStr(err))
		}},
		{name: "NewPointFrom/NewScalarFrom", cost: 409, warm: true, run: func(fx *Fixture, o *Op, c *ctx) string {
			return fmt.Sprintf("%x/%x", secp256k1.NewPointFrom(pick(fx.points, o.A)).CompressedBytes(), secp256k1.NewScalarFrom(pick(fx.scalars, o.B)).Bytes())
		}},
		// ---------------- key encoders and accessors
		{name: "PublicKey encoders", cost: 505, warm: true, run: func(fx *Fixture, o *Op, c *ctx) string {
			k := pick(fx.pubs, o.A)
			return fmt.Sprintf("%s/%s/%s/%s/%v", own(k.Bytes()), own(k.CompressedBytes()), own(k.ASN1Bytes()), own(k.Point().CompressedBytes()), k.Equal(pick(fx.pubs, o.B)))
		}},
		{name: "PrivateKey accessors", cost: 54, warm: true, run: func(fx *Fixture, o *Op, c *ctx) string {
			k := pick(fx.privs, o.A)
			pub, _ := k.Public().(*secec.PublicKey)
			return fmt.Sprintf("%s/%s/%s/%s/%v", own(k.Bytes()), own(k.Scalar().Bytes()), own(k.PublicKey().Bytes()), own(pub.CompressedBytes()), k.Equal(pick(fx.privs, o.B)))
		}},
		{name: "Schnorr key accessors", cost: 530, warm: true, run: func(fx *Fixture, o *Op, c *ctx) string {
			k := pick(fx.sprivs, o.A)
			p := pick(fx.spubs, o.B)
			return fmt.Sprintf("%s/%s/%s/%s/%s/%v/%v", own(k.Bytes()), own(k.Scalar().Bytes()), own(k.PublicKey().Bytes()), own(p.Bytes()), own(p.Point().CompressedBytes()), k.Equal(pick(fx.sprivs, o.B)), p.Equal(pick(fx.spubs, o.A)))
		}},
		// ---------------- derivations that read a shared key / point / scalar
		{name: "NewSchnorrPrivateKeyFromECDSA", cost: 85, warm: true, run: func(fx *Fixture, o *Op, c *ctx) string {
			sk := bitcoin.NewSchnorrPrivateKeyFromECDSA(pick(fx.privs, o.A))
			return fmt.Sprintf("%x/%x", sk.Bytes(), sk.PublicKey().Bytes())
		}},
		{name: "NewSchnorrPublicKeyFromECDSA/FromPoint", cost: 1755, warm: true, run: func(fx *Fixture, o *Op, c *ctx) string {
			// also a key that nobody else holds: it becomes garbage when this
			// operation returns
			if tmp, terr := secec.NewPublicKey(pick(fx.pubEncs, o.A)); terr == nil {
				_ = bitcoin.NewSchnorrPublicKeyFromECDSA(tmp)
			}
			a := bitcoin.NewSchnorrPublicKeyFromECDSA(pick(fx.pubs, o.A))
			b, err := bitcoin.NewSchnorrPublicKeyFromPoint(pick(fx.points, o.B))
			if err != nil {
				return fmt.Sprintf("%x/err", a.Bytes())
			}
			return fmt.Sprintf("%x/%x", a.Bytes(), b.Bytes())
		}},
		{name: "NewPublicKeyFromPoint/NewPrivateKeyFromScalar", cost: 7250, warm: true, run: func(fx *Fixture, o *Op, c *ctx) string {
			out := ""
			if k, err := secec.NewPublicKeyFromPoint(pick(fx.points, o.A)); err == nil {
				out += hx(k.CompressedBytes())
			} else {
				out += "err"
			}
			if k, err := secec.NewPrivateKeyFromScalar(pick(fx.scalars, o.B)); err == nil {
				out += "/" + hx(k.PublicKey().CompressedBytes())
			} else {
				out += "/err"
			}
			return out
		}},
		// ---------------- scalar reads into private receivers
		{name: "Scalar reads", cost: 650, warm: true, cold: true, run: func(fx *Fixture, o *Op, c *ctx) string {
			a, b := pick(fx.scalars, o.A), pick(fx.scalars, o.B)
			S := secp256k1.NewScalar
			return fmt.Sprintf("%x/%d%d%d/%x/%x/%x/%x", a.Bytes(), a.IsZero(), a.IsGreaterThanHalfN(), a.Equal(b),
				S().Invert(a).Bytes(), S().Multiply(a, b).Bytes(), S().Sum(a, b, a).Bytes(), S().Product(a, b).Bytes())
		}},
		{name: "RecoverPoint", cost: 625, warm: true, cold: true, run: func(fx *Fixture, o *Op, c *ctx) string {
			p, err := secp256k1.RecoverPoint(pick(fx.scalars, o.A), byte(o.B%4))
			if err != nil {
				return "err"
			}
			return hx(p.CompressedBytes())
		}},
		// ---------------- parsers on shared byte strings
		{name: "Parsers", cost: 259, warm: true, run: func(fx *Fixture, o *Op, c *ctx) string {
			out := ""
			r, s, err := secec.ParseASN1Signature(pick(fx.sigASN1, o.A))
			if err == nil {
				out += fmt.Sprintf("%x%x", r.Bytes(), s.Bytes())
			}
			_, _, _, err2 := secec.ParseCompactRecoverableSignature(pick(fx.sigRec, o.A))
			out += "/" + errStr(err2) + "/" + b2s(bitcoin.IsValidSignatureEncodingBIP0066(pick(fx.sigBIP66, o.A)))
			k, err3 := secec.ParseASN1PublicKey(pick(fx.pubEncs, o.B))
			if err3 == nil {
				out += "/" + hx(k.CompressedBytes())
			}
			_, err4 := secec.NewPublicKey(pick(fx.badBytes, o.C))
			return out + "/" + errStr(err4)
		}},
		{name: "h2c", cost: 3794, warm: true, cold: true, run: func(fx *Fixture, o *Op, c *ctx) string {
			var p *secp256k1.Point
			var err error
			if o.C%2 == 0 {
				p, err = h2c.Secp256k1_XMD_SHA256_SSWU_RO(pick(fx.dsts, o.A+int(o.Seed%5)), pick(fx.msgs, o.B))
			} else {
				p, err = h2c.Secp256k1_XMD_SHA256_SSWU_NU(pick(fx.dsts, o.A+int(o.Seed%5)), pick(fx.msgs, o.B))
			}
			if err != nil {
				return "err"
			}
			// the returned point is the caller's: it is used as a receiver
			// right away (nobody else may be looking at it)
			first := hx(p.CompressedBytes())
			p.Double(p)
			return first + "/" + hx(p.CompressedBytes())
		}},
		// ---------------- remaining public entry points on shared operands
		{name: "Scalar arithmetic", cost: 135, warm: true, cold: true, run: func(fx *Fixture, o *Op, c *ctx) string {
			a, b := pick(fx.scalars, o.A), pick(fx.scalars, o.B)
			S := secp256k1.NewScalar
			var raw [32]byte
			copy(raw[:], a.Bytes())
			sb, did := secp256k1.NewScalarFromBytes(&raw)
			return fmt.Sprintf("%x/%x/%x/%x/%x/%x/%x/%d", S().Add(a, b).Bytes(), S().Subtract(a, b).Bytes(), S().Negate(a).Bytes(), S().Square(a).Bytes(),
				S().ConditionalNegate(a, uint64(o.C&1)).Bytes(), S().ConditionalSelect(a, b, uint64(o.C>>1&1)).Bytes(), sb.Bytes(), did)
		}},
		{name: "SetUniformBytes/NewPointFromCoords/Split", cost: 3138, warm: true, run: func(fx *Fixture, o *Op, c *ctx) string {
			src := append(append([]byte{}, pick(fx.digests, o.A)...), pick(fx.digests, o.A+1)[:16]...)
			u := P().SetUniformBytes(src)
			pt := pick(fx.points, o.B)
			if pt.IsIdentity() == 1 {
				return hx(u.CompressedBytes()) + "/id"
			}
			unc := pt.UncompressedBytes()
			xb, yOdd := secp256k1.SplitUncompressedPoint(unc)
			q, err := secp256k1.NewPointFromCoords((*[32]byte)(unc[1:33]), (*[32]byte)(unc[33:65]))
			if err != nil {
				return "err"
			}
			return fmt.Sprintf("%x/%x/%d/%x", u.CompressedBytes(), xb, yOdd, q.CompressedBytes())
		}},
		{name: "Build/Parse signatures", cost: 163, warm: true, run: func(fx *Fixture, o *Op, c *ctx) string {
			r, s, v := pick(fx.sigR, o.A), pick(fx.sigS, o.A), pick(fx.sigV, o.A)
			a1, a2, a3 := secec.BuildASN1Signature(r, s), secec.BuildCompactSignature(r, s), secec.BuildCompactRecoverableSignature(r, s, v)
			r2, s2, err := secec.ParseCompactSignature(pick(fx.sigCompact, o.A))
			if err != nil {
				return "err"
			}
			return fmt.Sprintf("%x/%x/%x/%x/%x", a1, a2, a3, r2.Bytes(), s2.Bytes())
		}},
		{name: "Sign(crypto.SHA256 opts, crypto.Signer)", cost: 33240, warm: true, run: func(fx *Fixture, o *Op, c *ctx) string {
			var signer crypto.Signer = pick(fx.privs, o.A)
			sig, err := signer.Sign(c.device(o.Seed, false), pick(fx.digests, o.B), crypto.SHA256)
			pub, _ := signer.Public().(*secec.PublicKey)
			return fmt.Sprintf("%x/%s/%v", sig, errStr(err), err == nil && pub.Verify(pick(fx.digests, o.B), sig, nil))
		}},
		{name: "NewSchnorrPublicKey(bytes)+Verify/PreHash", cost: 10599, warm: true, run: func(fx *Fixture, o *Op, c *ctx) string {
			sp := pick(fx.spubs, o.A)
			k, err := bitcoin.NewSchnorrPublicKey(sp.Bytes())
			if err != nil {
				return "err"
			}
			// many different domain separators: each one is new to the process once
			ph, err := bitcoin.PreHashSchnorrMessage(fmt.Sprintf("verif/conc/%d", o.Seed%48), pick(fx.msgs, o.B))
			var signer crypto.Signer = pick(fx.sprivs, o.A)
			pk2, _ := signer.Public().(*bitcoin.SchnorrPublicKey)
			return fmt.Sprintf("%x/%v/%x/%s/%v", k.Bytes(), k.Verify(pick(fx.msgs, o.C), pick(fx.schSigs, o.A)), ph, errStr(err), pk2.Equal(k))
		}},
		{name: "GenerateSchnorrKey", cost: 8668, cold: true, warm: true, run: func(fx *Fixture, o *Op, c *ctx) string {
			k, err := bitcoin.GenerateSchnorrKey()
			if err != nil {
				return "err"
			}
			q, derr := ref.Decode(append([]byte{2}, k.PublicKey().Bytes()...))
			want := ref.BaseMul(ref.OS2IP(k.Bytes()))
			return "valid=" + b2s(derr == nil && !q.Inf && want.X.Cmp(q.X) == 0)
		}},
		// ---------------- large batches (a different code path may be taken above some size)
		{name: "MultiScalarMult(large batch)", cost: 561503, warm: true, run: func(fx *Fixture, o *Op, c *ctx) string {
			n := []int{65, 70, 100, 33}[((o.C%4)+4)%4]
			ss := make([]*secp256k1.Scalar, 0, n)
			ps := make([]*secp256k1.Point, 0, n)
			for i := 0; i < n; i++ {
				ss = append(ss, pick(fx.scalars, o.A+i))
				ps = append(ps, pick(fx.points, o.B+i*(1+o.A%3)))
			}
			if o.Seed&1 == 0 {
				return hx(P().MultiScalarMultVartime(ss, ps).CompressedBytes())
			}
			return hx(P().MultiScalarMult(ss, ps).CompressedBytes())
		}},
		// ---------------- bursts of signatures from the system entropy source
		// (an implementation may batch or buffer what it draws from it)
		{name: "SchnorrSign(rand=nil) x20", cost: 350000, warm: true, run: func(fx *Fixture, o *Op, c *ctx) string {
			i := ((o.A % len(fx.sprivs)) + len(fx.sprivs)) % len(fx.sprivs)
			msg := pick(fx.msgs, o.B)
			ok := true
			for k := 0; k < 20; k++ {
				sig, err := fx.sprivs[i].Sign(nil, msg, nil)
				ok = ok && err == nil && pick(fx.spubs, i).Verify(msg, sig)
				if k == 19 && ok {
					ok = ref.BIP340Verify(ref.I2OSP32(fx.modelQ[i].X), msg, sig)
				}
			}
			return "valid=" + b2s(ok)
		}},
		{name: "SignRaw(rand=nil) x20", cost: 450000, warm: true, run: func(fx *Fixture, o *Op, c *ctx) string {
			i := ((o.A % len(fx.privs)) + len(fx.privs)) % len(fx.privs)
			dg := pick(fx.digests, o.B)
			ok := true
			for k := 0; k < 20; k++ {
				r, s, _, err := fx.privs[i].SignRaw(nil, dg)
				ok = ok && err == nil && pick(fx.pubs, i).VerifyRaw(dg, r, s)
				if k == 19 && ok {
					e, _ := ref.DigestToE(dg)
					ok = ref.ECDSAVerify(fx.modelQ[i], e, ref.OS2IP(r.Bytes()), ref.OS2IP(s.Bytes()))
				}
			}
			return "valid=" + b2s(ok)
		}},
		// ---------------- calls that are refused (error paths run concurrently too)
		{name: "Rejections", cost: 30000, warm: true, run: func(fx *Fixture, o *Op, c *ctx) string {
			var out []string
			add := func(v any) { out = append(out, fmt.Sprint(v)) }
			pk, sk := pick(fx.pubs, o.A), pick(fx.privs, o.B)
			dg := pick(fx.digests, o.C)
			add(pk.Verify(dg[:31], pick(fx.sigASN1, o.A), nil))                                                 // short digest
			add(pk.Verify(append(append([]byte{}, dg...), 1), pick(fx.sigCompact, o.A), fx.opts))               // digest length vs hash
			add(pk.Verify(dg, pick(fx.sigRec, o.A), &secec.ECDSAOptions{Encoding: secec.SignatureEncoding(7)})) // unknown encoding
			add(pk.Verify(dg, pick(fx.sigRec, o.A+1), &secec.ECDSAOptions{Encoding: secec.EncodingCompactRecoverable}))
			_, err := sk.Sign(c.device(o.Seed, false), dg[:20], nil)
			add(err != nil)
			_, err = sk.Sign(c.device(o.Seed, false), dg, &secec.ECDSAOptions{Encoding: secec.SignatureEncoding(9)})
			add(err != nil)
			_, err = secec.NewPrivateKey(make([]byte, 32))
			add(err != nil)
			_, err = secec.NewPrivateKey(ref.I2OSP32(ref.N))
			add(err != nil)
			_, err = secec.NewPublicKey([]byte{0})
			add(err != nil)
			_, err = secec.ParseASN1PublicKey(pick(fx.pubEncs, o.A))
			add(err != nil)
			_, err = bitcoin.NewSchnorrPublicKey(ref.I2OSP32(ref.P))
			add(err != nil)
			_, err = bitcoin.NewSchnorrPublicKey(ref.I2OSP32(big.NewInt(5)))
			add(err != nil)
			_, err = bitcoin.PreHashSchnorrMessage("", pick(fx.msgs, o.B))
			add(err != nil)
			add(pick(fx.spubs, o.A).Verify(pick(fx.msgs, o.B), pick(fx.schSigs, o.C)[:63]))
			_, _, err = secec.ParseCompactSignature(make([]byte, 64))
			add(err != nil)
			_, _, _, err = secec.ParseCompactRecoverableSignature(pick(fx.sigRec, o.A)[:64])
			add(err != nil)
			_, _, err = secec.ParseASN1Signature(pick(fx.sigCompact, o.A))
			add(err != nil)
			add(bitcoin.IsValidSignatureEncodingBIP0066(pick(fx.sigCompact, o.A)))
			add(bitcoin.VerifyASN1(pk, dg, pick(fx.sigASN1, o.A)))
			_, err = secec.RecoverPublicKey(dg, pick(fx.sigR, o.A), pick(fx.sigS, o.A), 9)
			add(err != nil)
			_, err = secp256k1.RecoverPoint(pick(fx.scalars, o.A), 200)
			add(err != nil)
			id, err := P().SetBytes([]byte{0})
			add(err == nil && id.IsIdentity() == 1)
			_, err = P().SetBytes([]byte{1})
			add(err != nil)
			_, err = P().SetCompressedBytes(pick(fx.pubEncs, o.A+1))
			add(err != nil)
			_, err = P().SetUncompressedBytes(pick(fx.pubEncs, o.A))
			add(err != nil)
			var bad [32]byte
			copy(bad[:], ref.I2OSP32(ref.P))
			_, err = secp256k1.NewPointFromCoords(&bad, &bad)
			add(err != nil)
			_, err = secp256k1.NewScalarFromCanonicalBytes((*[32]byte)(ref.I2OSP32(ref.N)))
			add(err != nil)
			_, err = secec.NewPublicKeyFromPoint(secp256k1.NewIdentityPoint())
			add(err != nil)
			_, err = h2c.Secp256k1_XMD_SHA256_SSWU_RO(nil, pick(fx.msgs, o.B))
			add(err != nil)
			// the one-term and generator paths
			add(hx(P().MultiScalarMult(fx.msmScalars[:1], fx.msmPoints[:1]).CompressedBytes()))
			add(hx(P().MultiScalarMultVartime(fx.msmScalars[1:2], fx.msmPoints[1:2]).CompressedBytes()))
			add(hx(P().Generator().CompressedBytes()) == hx(secp256k1.NewGeneratorPoint().CompressedBytes()))
			return strings.Join(out, ",")
		}},
		// ---------------- a batch whose slices are themselves shared by the callers
		{name: "MultiScalarMult(shared slices)", cost: 60000, warm: true, run: func(fx *Fixture, o *Op, c *ctx) string {
			// an odd or even number of terms; the slices keep spare capacity
			// behind the part that is passed
			n := len(fx.msmScalars) - (o.C>>1)%2
			if o.C%2 == 0 {
				return own(P().MultiScalarMultVartime(fx.msmScalars[:n], fx.msmPoints[:n]).CompressedBytes())
			}
			return own(P().MultiScalarMult(fx.msmScalars[:n], fx.msmPoints[:n]).CompressedBytes())
		}},
		// ---------------- failing entropy source in the middle of concurrent use
		{name: "Sign(failing device)", cost: 57, warm: true, run: func(fx *Fixture, o *Op, c *ctx) string {
			sig, err := pick(fx.privs, o.A).Sign(c.failing(o.Seed), pick(fx.digests, o.B), fx.opts)
			return fmt.Sprintf("%x/%s", sig, errStr(err))
		}},
		{name: "SchnorrSign(failing device)", cost: 4, warm: true, run: func(fx *Fixture, o *Op, c *ctx) string {
			sig, err := pick(fx.sprivs, o.A).Sign(c.failing(o.Seed), pick(fx.msgs, o.B), nil)
			return fmt.Sprintf("%x/%s", sig, errStr(err))
		}},
		// ---------------- a recovered key is used after other verifications ran
		{name: "RecoverPublicKey+use", cost: 93183, warm: true, run: func(fx *Fixture, o *Op, c *ctx) string {
			i := ((o.A % len(fx.sigR)) + len(fx.sigR)) % len(fx.sigR)
			q, err := secec.RecoverPublicKey(fx.digests[0], fx.sigR[i], fx.sigS[i], fx.sigV[i])
			if err != nil {
				return "valid=0(err)"
			}
			// somebody else's verification in between
			j := (i + 1) % len(fx.sigR)
			other := pick(fx.pubs, j).VerifyRaw(fx.digests[0], fx.sigR[j], fx.sigS[j])
			ok := q.VerifyRaw(fx.digests[0], fx.sigR[i], fx.sigS[i])
			pt := q.Point()
			same := hx(pt.UncompressedBytes()) == hx(q.Bytes()) && hx(q.Bytes()) == hx(fx.modelQ[i].Uncompressed())
			_, eerr := pick(fx.privs, o.B).ECDH(q)
			return "valid=" + b2s(ok && same && other && eerr == nil)
		}},
		// ---------------- cold-start composites: construct from shared bytes, then use
		{name: "cold:NewPrivateKey+Sign(RFC6979)", cost: 21613, cold: true, warm: true, run: func(fx *Fixture, o *Op, c *ctx) string {
			k, err := secec.NewPrivateKey(pick(fx.privEncs, o.A))
			if err != nil {
				return "err"
			}
			sig, err := k.Sign(secec.RFC6979SHA256(), pick(fx.digests, o.B), &secec.ECDSAOptions{Hash: crypto.SHA256, Encoding: secec.EncodingCompactRecoverable, SelfVerify: o.C%2 == 1})
			return fmt.Sprintf("%x/%x/%s", k.PublicKey().CompressedBytes(), sig, errStr(err))
		}},
		{name: "cold:NewPublicKey+encoders", cost: 735, cold: true, warm: true, run: func(fx *Fixture, o *Op, c *ctx) string {
			k, err := secec.NewPublicKey(pick(fx.pubEncs, o.A))
			if err != nil {
				return "err"
			}
			return fmt.Sprintf("%x/%x", k.Bytes(), k.CompressedBytes())
		}},
		{name: "cold:NewSchnorrPrivateKey+Sign", cost: 25935, cold: true, warm: true, run: func(fx *Fixture, o *Op, c *ctx) string {
			k, err := bitcoin.NewSchnorrPrivateKey(pick(fx.privEncs, o.A))
			if err != nil {
				return "err"
			}
			// the signature is the last thing this caller does with the key
			// object (load, sign, drop)
			pkb := own(k.PublicKey().Bytes())
			sig, err := k.Sign(c.device(o.Seed, false), pick(fx.msgs, o.B), nil)
			return fmt.Sprintf("%s/%x/%s", pkb, sig, errStr(err))
		}},
		{name: "cold:NewPointFromBytes+ScalarMult", cost: 18867, cold: true, warm: true, run: func(fx *Fixture, o *Op, c *ctx) string {
			p, err := secp256k1.NewPointFromBytes(pick(fx.pubEncs, o.A))
			if err != nil {
				return "err"
			}
			return hx(P().ScalarMult(pick(fx.scalars, o.B), p).CompressedBytes())
		}},
		{name: "cold:GenerateKey", cost: 8594, cold: true, warm: true, run: func(fx *Fixture, o *Op, c *ctx) string {
			k, err := secec.GenerateKey()
			if err != nil {
				return "err"
			}
			// validity only: the output is not reproducible
			q, derr := ref.Decode(k.PublicKey().Bytes())
			return "valid=" + b2s(derr == nil && !q.Inf && q.Eq(ref.BaseMul(ref.OS2IP(k.Bytes()))))
		}},
		{name: "cold:ECDH", cost: 28256, cold: true, warm: true, run: func(fx *Fixture, o *Op, c *ctx) string {
			k, err := secec.NewPrivateKey(pick(fx.privEncs, o.A))
			if err != nil {
				return "err"
			}
			pk, err := secec.NewPublicKey(pick(fx.pubEncs, o.B))
			if err != nil {
				return "err"
			}
			ss, err := k.ECDH(pk)
			return fmt.Sprintf("%x/%s", ss, errStr(err))
		}},
	}
}
