package sign

import (
	"bytes"
	"crypto"
	"crypto/sha256"
	"encoding/binary"
	"fmt"
	"io"
	"math"
	"math/big"

	secp256k1 "gitlab.com/yawning/secp256k1-voi"
	"gitlab.com/yawning/secp256k1-voi/secec"

	"verif/sim/kernel"
	"verif/sim/ref"
)

var halfNBytes = ref.I2OSP32(ref.HalfN)

// opLongHistory: one signer, hundreds to thousands of SignRaw calls in a
// row over consecutive digests, under one of three entropy regimes:
// RFC 6979 mode, a stuck device (the same constant 32 bytes for every
// signature), or ONE long-lived device shared by all calls (so that exact
// 32-byte consumption is checked cumulatively across the history).
//
// Cheap invariants are checked on every event (no error on a healthy device,
// cumulative consumption, r never repeats although only the digest changes,
// ranges, low s); a deterministic 1/16 sample is verified and recovered with
// the library; and every event whose r or s has a zero leading byte — the
// rare shapes (shorter DER integers, leading-zero stripping, 31-byte values)
// that only a long history reaches — is signed again through Sign in all
// three encodings, parsed back with the model's and the library's parsers,
// compared with (r,s,v) and verified.
func (w *World) opLongHistory(step int) {
	key := w.t.Choose("ops", "lh.key", len(w.keys))
	sg := w.keys[key]
	mode := w.t.Choose("ops", "lh.mode", 3)
	n := 256 << uint(w.t.Choose("ops", "lh.len", 4))
	base := w.t.Bytes("ops", "lh.base", 32)
	stuck := byte(w.t.Choose("ops", "lh.const", 256))
	var shared *kernel.Device
	modeName := "rfc6979"
	switch mode {
	case 1:
		modeName = fmt.Sprintf("stuck(0x%02x)", stuck)
		w.r.Fault("stuck_payload")
	case 2:
		modeName = "one-shared-device"
		shared = kernel.NewDevice(kernel.DevCfg{Payload: kernel.PayPRNG, Seed: w.t.U64("ops", "lh.seed"), ErrAt: -1, Chunks: w.genChunks("ops")})
	}
	w.r.Probe("long_histories")
	seenR := make(map[[32]byte]int, n)
	h := sha256.New()
	pub := sg.priv.PublicKey()
	var digest [32]byte
	bad := 0
	// coarse statistical screen of the nonces (the private key is known, so
	// every nonce can be extracted): how often each of the 16 top and 16
	// bottom bits of min(k, n-k) is set
	var bitCount [32]int
	extracted := 0
	// Revisits: in the two regimes where the signature is a function of
	// (key, digest) alone, an earlier digest of this history is signed again
	// every few events, at back-distances around the sizes a memo, ring or
	// cache would have; the result must be what it was the first time
	// (whatever the library remembers between calls must not show).
	outs := make([][65]byte, 0, n)
	revisitEvery := 3 + w.t.Choose("ops", "lh.revisit", 14)
	revisits := 0
	for i := 0; i < n && bad < 3; i++ {
		if mode != 2 && bad == 0 && len(outs) == i && i > 0 && i%revisitEvery == 0 {
			d := revisitDistances[(i/revisitEvery)%len(revisitDistances)]
			if d <= i {
				j := i - d
				var dj [32]byte
				copy(dj[:], base)
				binary.BigEndian.PutUint32(dj[28:], binary.BigEndian.Uint32(base[28:])+uint32(j))
				var rd io.Reader = secec.RFC6979SHA256()
				if mode == 1 {
					rd = scripted(bytes.Repeat([]byte{stuck}, 32))
				}
				var r, s *secp256k1.Scalar
				var v byte
				var err error
				po := protect(func() { r, s, v, err = sg.priv.SignRaw(rd, dj[:]) })
				desc := fmt.Sprintf("long history (%s) key=%d: digest %x of event %d signed again after event %d", modeName, key, dj, j, i-1)
				revisits++
				switch {
				case po.panicked:
					w.r.Violate("C08", "sign-panic", "SignRaw:long-history", step, "%s panicked: %s", desc, po.panicMsg)
					bad++
				case err != nil || r == nil || s == nil:
					w.r.Violate("C09", "healthy-read-failed", "SignRaw:long-history", step, "%s failed on a healthy entropy source: %v", desc, err)
					bad++
				case !bytes.Equal(r.Bytes(), outs[j][:32]) || !bytes.Equal(s.Bytes(), outs[j][32:64]):
					w.r.Violate("C09", "nondeterministic-nonce", "long-history:revisit", step, "%s: (r=%x s=%x), the first time it was (r=%x s=%x) - same key, digest and entropy", desc, r.Bytes(), s.Bytes(), outs[j][:32], outs[j][32:64])
					bad++
				case v != outs[j][64]:
					w.r.Violate("C08", "recovery-id-unstable", "long-history:revisit", step, "%s: the same (r=%x, s=%x) now comes with recovery id %d, the first time with %d", desc, r.Bytes(), s.Bytes(), v, outs[j][64])
					bad++
				}
			}
		}
		copy(digest[:], base)
		binary.BigEndian.PutUint32(digest[28:], binary.BigEndian.Uint32(base[28:])+uint32(i))
		var rd io.Reader
		var ent []byte
		switch mode {
		case 0:
			rd = secec.RFC6979SHA256()
		case 1:
			ent = bytes.Repeat([]byte{stuck}, 32)
			rd = scripted(ent)
		default:
			rd = shared
		}
		var r, s *secp256k1.Scalar
		var v byte
		var err error
		po := protect(func() { r, s, v, err = sg.priv.SignRaw(rd, digest[:]) })
		desc := fmt.Sprintf("long history (%s) event %d/%d: SignRaw key=%d digest=%x", modeName, i, n, key, digest)
		if po.panicked {
			w.r.Violate("C08", "sign-panic", "SignRaw:long-history", step, "%s panicked: %s", desc, po.panicMsg)
			bad++
			continue
		}
		if err != nil && shared != nil && shared.MaxEmptyRun() > kernel.PatienceBound {
			// failing closed on a reader that makes no progress for a long
			// time is not what the property forbids; the history ends here
			// (what the device has delivered no longer lines up with the
			// number of signatures)
			w.r.Probe("gave_up_with_an_error_after_a_long_run_of_empty_reads")
			break
		}
		if err != nil || r == nil || s == nil {
			w.r.Violate("C09", "healthy-read-failed", "SignRaw:long-history", step, "%s failed on a healthy entropy source: %v", desc, err)
			bad++
			continue
		}
		if shared != nil {
			if shared.Delivered != 32*(i+1) {
				w.r.Violate("C09", "entropy-consumption", "SignRaw:long-history", step, "%s: the shared device has delivered %d bytes after %d signatures, must be exactly %d", desc, shared.Delivered, i+1, 32*(i+1))
				bad++
				continue
			}
			ent = append([]byte(nil), shared.Bytes[32*i:32*(i+1)]...)
		}
		rb, sb := r.Bytes(), s.Bytes()
		var o65 [65]byte
		copy(o65[:32], rb)
		copy(o65[32:64], sb)
		o65[64] = v
		outs = append(outs, o65)
		h.Write(rb)
		h.Write(sb)
		h.Write([]byte{v})
		var rk [32]byte
		copy(rk[:], rb)
		if j, dup := seenR[rk]; dup {
			w.r.Violate("C09", "nonce-reuse", "long-history:"+modeName[:4], step, "%s shares r=%x with event %d of the same history (same key, %s, different digest)", desc, rb, j, modeName)
			bad++
		}
		seenR[rk] = i
		zero := make([]byte, 32)
		if bytes.Equal(rb, zero) || !ref.ScalarCanonical(rb) {
			w.r.Violate("C08", "r-out-of-range", "long-history", step, "%s: r=%x not in [1,n)", desc, rb)
			bad++
			continue
		}
		if bytes.Equal(sb, zero) || bytes.Compare(sb, halfNBytes) > 0 {
			w.r.Violate("C08", "s-not-low", "long-history", step, "%s: s=%x not in [1,(n-1)/2]", desc, sb)
			bad++
			continue
		}
		if v > 3 {
			w.r.Violate("C08", "recovery-id-range", "long-history", step, "%s: recovery id %d", desc, v)
			bad++
			continue
		}
		if i%16 == 5 {
			var vok bool
			if po := protect(func() { vok = pub.VerifyRaw(digest[:], r, s) }); po.panicked {
				w.r.Violate("C08", "verification-panics", "VerifyRaw:long-history", step, "%s: VerifyRaw of the signer's own signature panicked: %s", desc, po.panicMsg)
				bad++
				continue
			}
			if !vok {
				w.r.Violate("C08", "lib-verify-rejects", "VerifyRaw:long-history", step, "%s: VerifyRaw rejects the signer's own signature (r=%x s=%x)", desc, rb, sb)
				bad++
			}
			var rq *secec.PublicKey
			var rerr error
			if po := protect(func() { rq, rerr = secec.RecoverPublicKey(digest[:], r, s, v) }); po.panicked {
				w.r.Violate("C08", "verification-panics", "RecoverPublicKey:long-history", step, "%s: RecoverPublicKey panicked: %s", desc, po.panicMsg)
				bad++
				continue
			}
			if rerr != nil || !bytes.Equal(rq.Bytes(), sg.qBytes) {
				w.r.Violate("C08", "lib-recover-disagrees", "RecoverPublicKey:long-history", step, "%s: RecoverPublicKey(v=%d) err=%v does not return the signer", desc, v, rerr)
				bad++
			}
		}
		// nonce extraction: k = s^-1 (e + r d) mod n, up to sign
		if e, ok := ref.DigestToE(digest[:]); ok {
			k := ref.ExtractNonce(sg.d, e, ref.OS2IP(rb), ref.OS2IP(sb))
			if nk := new(big.Int).Sub(ref.N, k); nk.Cmp(k) < 0 {
				k = nk
			}
			for b := 0; b < 16; b++ {
				bitCount[b] += int(k.Bit(254 - b))
				bitCount[16+b] += int(k.Bit(b))
			}
			extracted++
		}
		if rb[0] == 0 || sb[0] == 0 {
			w.r.Probe("long_history_leading_zero_byte_events")
			if (rb[0] == 0 && rb[1] == 0) || (sb[0] == 0 && sb[1] == 0) {
				w.r.Probe("long_history_two_leading_zero_bytes_events")
			}
			if !w.checkEncodingsOfEvent(step, desc, sg, digest[:], ent, rb, sb, v) {
				bad++
			}
		}
	}
	// Each tracked bit of min(k, n-k) is set with probability 1/2 (to within
	// 2^-128) when the nonce is uniform on [1, n).  The bound is 8 standard
	// deviations: a uniform nonce trips it with probability about 1e-15 per
	// bit, a nonce with cleared / fixed / truncated high or low bits always.
	// (A bias confined to the single top bit of k is invisible here, because
	// k and n-k cannot be told apart from a low-s signature.)
	if bad == 0 && extracted >= 256 {
		lim := 4 * math.Sqrt(float64(extracted))
		for b, c := range bitCount {
			if math.Abs(float64(c)-float64(extracted)/2) > lim {
				bit := 254 - b
				if b >= 16 {
					bit = b - 16
				}
				w.r.Violate("C09", "nonce-bias", fmt.Sprintf("bit%d", bit), step, "long history (%s) key=%d: bit %d of min(k, n-k) is set in %d of %d extracted nonces (a uniform nonce gives %d +- %.0f at 8 sigma): the nonce distribution is skewed", modeName, key, bit, c, extracted, extracted/2, lim)
				break
			}
		}
		w.r.Probe("long_history_nonce_bias_screens")
	}
	w.r.Hist("%d long history key=%d mode=%s events=%d -> sha256(r|s|v...)=%x", step, key, modeName, n, h.Sum(nil))
	w.r.ProbeN("long_history_events", n)
	w.r.ProbeN("long_history_revisits", revisits)
}

// revisitDistances: how many events back a long history looks when it signs
// an earlier digest again.
var revisitDistances = []int{1, 2, 3, 4, 5, 7, 8, 9, 15, 16, 17, 31, 32, 33, 63, 64, 65, 127, 128, 129, 255, 256, 257, 511, 512, 513, 1023, 1024, 1025}

// checkEncodingsOfEvent signs (key, digest, entropy) again through Sign in
// every encoding; the bytes must parse back (model parser and library
// parser) to the same (r, s, v) and verify.
func (w *World) checkEncodingsOfEvent(step int, desc string, sg *signer, digest, ent, rb, sb []byte, v byte) bool {
	ok := true
	pub := sg.priv.PublicKey()
	for _, enc := range []secec.SignatureEncoding{secec.EncodingASN1, secec.EncodingCompact, secec.EncodingCompactRecoverable} {
		var rd io.Reader = secec.RFC6979SHA256()
		if ent != nil {
			rd = scripted(ent)
		}
		o := &secec.ECDSAOptions{Hash: crypto.SHA256, Encoding: enc}
		var sig []byte
		var err error
		po := protect(func() { sig, err = sg.priv.Sign(rd, digest, o) })
		key := fmt.Sprintf("Sign:enc=%d", enc)
		if po.panicked || err != nil {
			w.r.Violate("C08", "sign-vs-signraw-mismatch", key, step, "%s signed through SignRaw, but Sign(enc=%d) with the same inputs failed (err=%v panic=%q)", desc, enc, err, po.panicMsg)
			ok = false
			continue
		}
		r2, s2, v2, haveV, perr := w.parseSig(enc, sig)
		if perr != "" {
			w.r.Violate("C08", "encoding-does-not-parse", key, step, "%s: Sign(enc=%d) output %x for r=%x s=%x: %s", desc, enc, sig, rb, sb, perr)
			ok = false
			continue
		}
		if !bytes.Equal(ref.I2OSP32(r2), rb) || !bytes.Equal(ref.I2OSP32(s2), sb) || (haveV && v2 != v) {
			w.r.Violate("C08", "sign-vs-signraw-mismatch", key, step, "%s: Sign(enc=%d) output %x parses to (r=%x s=%x v=%d), SignRaw gave (r=%x s=%x v=%d)", desc, enc, sig, r2, s2, v2, rb, sb, v)
			ok = false
			continue
		}
		var vok bool
		if po := protect(func() { vok = pub.Verify(digest, sig, o) }); po.panicked {
			w.r.Violate("C08", "verification-panics", fmt.Sprintf("Verify:enc=%d", enc), step, "%s: Verify(enc=%d) of the signer's own signature panicked: %s", desc, enc, po.panicMsg)
			ok = false
			continue
		}
		if !vok {
			w.r.Violate("C08", "lib-verify-rejects", fmt.Sprintf("Verify:enc=%d:rejmal=false", enc), step, "%s: Verify(enc=%d) rejects the signer's own signature %x", desc, enc, sig)
			ok = false
		}
	}
	w.r.Probe("long_history_encoding_checks")
	return ok
}
