// Package sign is the `sign` world: signers driven through their entropy
// seam (io.Reader) by fault-injecting devices.  Single task; the
// nondeterminism is the device and the history, not the schedule.
//
// Decides C09 (full), and the entropy-source clauses of C08 and C14.
package sign

import (
	"bytes"
	crand "crypto/rand"
	_ "crypto/sha256"
	_ "crypto/sha512"
	"fmt"
	"io"
	"math/big"

	secp256k1 "gitlab.com/yawning/secp256k1-voi"
	"gitlab.com/yawning/secp256k1-voi/secec"
	"gitlab.com/yawning/secp256k1-voi/secec/bitcoin"

	"verif/sim/kernel"
	"verif/sim/ref"
)

const (
	maxOps = 64
)

type signer struct {
	d      *big.Int
	dBytes []byte
	// supplied is the caller's buffer that was handed to NewPrivateKey; the
	// caller overwrites it at some later step (nil once that has happened)
	supplied []byte
	// suppliedSch: the buffer handed to NewSchnorrPrivateKey, for signers
	// whose Schnorr key was imported from bytes rather than derived from the
	// ECDSA key object (nil otherwise, and once the caller has overwritten it)
	suppliedSch []byte
	priv        *secec.PrivateKey
	sch      *bitcoin.SchnorrPrivateKey
	q        ref.Pt // model public key d*G
	qBytes   []byte
}

// sigEvent is one successful ECDSA signing event.
type sigEvent struct {
	step    int
	key     int
	digest  []byte
	e       *big.Int
	mode    string // "hedged" | "rfc6979"
	ent     []byte // the 32 bytes of entropy the signer consumed (hedged)
	r, s    *big.Int
	v       byte
	k       *big.Int // extracted nonce, normalised to min(k, n-k)
	triple  string
	sigDesc string
}

// heldSig is a signature slice the caller still holds.
type heldSig struct {
	step     int
	desc     string
	sig      []byte
	snap     []byte
	enc      secec.SignatureEncoding
	reported bool
}

type schEvent struct {
	key int
	aux []byte
	msg []byte
	sig []byte // the slice Sign returned (not a copy)

	snap     []byte // what it held when it was returned
	reported bool
}

// World is the state of one run.
type World struct {
	r    *kernel.Run
	t    *kernel.Tape
	prop string
	keys []*signer

	events   []*sigEvent
	byR      map[string]int
	byK      map[string]int
	byTriple map[string]int

	bystander    *secec.PrivateKey
	bystanderSch *bitcoin.SchnorrPrivateKey
	digests  [][]byte
	schs     []*schEvent
	held     []heldSig
	// caller-owned options objects that are reused, with rewritten fields,
	// across the calls of a history
	optsPool       []*secec.ECDSAOptions
	verifyOpts     secec.ECDSAOptions
	offerElsewhere bool // a signature is offered to the verifier for another digest before its own
}

func hx(b []byte) string { return kernel.Hex(b) }

// ---------------------------------------------------------------- fixture

var boundaryScalars = func() []*big.Int {
	nm1 := new(big.Int).Sub(ref.N, big.NewInt(1))
	nm2 := new(big.Int).Sub(ref.N, big.NewInt(2))
	return []*big.Int{big.NewInt(1), big.NewInt(2), nm1, nm2, big.NewInt(3), new(big.Int).Set(ref.HalfN), new(big.Int).Add(ref.HalfN, big.NewInt(1))}
}()

func (w *World) drawPrivScalar(stream, label string) *big.Int {
	c := w.t.Choose(stream, label, len(boundaryScalars)+6)
	if c >= 6 {
		return new(big.Int).Set(boundaryScalars[c-6])
	}
	// random in [1, n)
	v := ref.OS2IP(w.t.Bytes(stream, label+".rnd", 32))
	v.Mod(v, new(big.Int).Sub(ref.N, big.NewInt(1)))
	return v.Add(v, big.NewInt(1))
}

func (w *World) buildFixture() bool {
	nk := 1 + w.t.Choose("fixture", "nkeys", 4)
	for i := 0; i < nk; i++ {
		d := w.drawPrivScalar("fixture", fmt.Sprintf("key%d", i))
		if !w.addKey(i, d) {
			return false
		}
	}
	return true
}

func (w *World) addKey(i int, d *big.Int) bool {
	sg := &signer{d: d, dBytes: ref.I2OSP32(d)}
	sg.supplied = append([]byte(nil), sg.dBytes...)
	priv, err := secec.NewPrivateKey(sg.supplied)
	if err != nil {
		// The scalar is in [1,n) by construction.  Key import is not
		// decided by the properties of this world; nothing can proceed.
		w.r.Violate("HARNESS", "fixture-key-import", "NewPrivateKey", 0, "NewPrivateKey rejected scalar %x in [1,n): %v", sg.dBytes, err)
		return false
	}
	sg.priv = priv
	sg.sch = bitcoin.NewSchnorrPrivateKeyFromECDSA(priv)
	if w.t.Chance("fixture", "sch.from_bytes", 1, 2) {
		// the other route to the same key pair: imported from a caller's
		// buffer (which the caller overwrites later in the history)
		buf := append([]byte(nil), sg.dBytes...)
		if sk, err := bitcoin.NewSchnorrPrivateKey(buf); err == nil {
			sg.sch, sg.suppliedSch = sk, buf
			w.r.Probe("schnorr_key_imported_from_bytes")
		}
	}
	sg.q = ref.BaseMul(d)
	sg.qBytes = sg.q.Uncompressed()
	w.keys = append(w.keys, sg)
	w.r.Hist("key %d d=%x pub=%x", i, sg.dBytes, priv.PublicKey().Bytes())
	w.checkSchnorrKey(0, fmt.Sprintf("fromECDSA[%d]", i), sg.sch, sg.d)
	if sg.q.IsYOdd() {
		w.r.Probe("key_y_odd")
	} else {
		w.r.Probe("key_y_even")
	}
	return true
}

// checkSchnorrKey: fixture invariant of C14 — the Schnorr pair derived from
// a key exposes the even-y point, its x, and a signing scalar consistent
// with it (the last part is decided by every signing event).
func (w *World) checkSchnorrKey(step int, how string, sk *bitcoin.SchnorrPrivateKey, d *big.Int) {
	pk := sk.PublicKey()
	q := ref.BaseMul(d)
	even := q
	if q.IsYOdd() {
		even = q.Neg()
	}
	if !bytes.Equal(pk.Bytes(), ref.I2OSP32(q.X)) {
		w.r.Violate("C14", "schnorr-key-x", how, step, "SchnorrPublicKey.Bytes()=%x, model x(d*G)=%x", pk.Bytes(), ref.I2OSP32(q.X))
	}
	if !bytes.Equal(pk.Point().UncompressedBytes(), even.Uncompressed()) {
		w.r.Violate("C14", "schnorr-key-point", how, step, "SchnorrPublicKey.Point()=%x, model even-y point=%x", pk.Point().UncompressedBytes(), even.Uncompressed())
	}
	if !bytes.Equal(sk.Bytes(), ref.I2OSP32(d)) {
		w.r.Violate("C14", "schnorr-key-scalar", how, step, "SchnorrPrivateKey.Bytes()=%x, want %x", sk.Bytes(), ref.I2OSP32(d))
	}
}

// ---------------------------------------------------------------- generators

func nPlus(delta int64) []byte {
	return ref.I2OSP32(new(big.Int).Add(ref.N, big.NewInt(delta)))
}

var twoTo256 = new(big.Int).Lsh(big.NewInt(1), 256)

// genDigest32 draws the leading 32 bytes of a digest with boundary bias.
func (w *World) genDigest32(stream string) []byte {
	switch w.t.Choose(stream, "dg.kind", 12) {
	case 0, 1, 2:
		return w.t.Bytes(stream, "dg.rnd", 32)
	case 3:
		return make([]byte, 32)
	case 4:
		return bytes.Repeat([]byte{0xff}, 32)
	case 5:
		return nPlus(-1)
	case 6:
		return nPlus(0)
	case 7:
		return nPlus(1)
	case 8: // random value in [n, 2^256)
		span := new(big.Int).Sub(twoTo256, ref.N)
		v := ref.OS2IP(w.t.Bytes(stream, "dg.rnd", 32))
		v.Mod(v, span)
		return ref.I2OSP32(v.Add(v, ref.N))
	case 9: // equal mod n to an earlier digest (x <-> x+n)
		if len(w.digests) > 0 {
			p := w.digests[w.t.Choose(stream, "dg.prev", len(w.digests))]
			v := ref.OS2IP(p[:32])
			if v.Cmp(ref.N) >= 0 {
				return ref.I2OSP32(v.Sub(v, ref.N))
			}
			v.Add(v, ref.N)
			if v.Cmp(twoTo256) < 0 {
				return ref.I2OSP32(v)
			}
		}
		// small x, so that x+n fits
		return ref.I2OSP32(big.NewInt(int64(w.t.Choose(stream, "dg.small", 1000))))
	case 10: // an earlier digest again
		if len(w.digests) > 0 {
			p := w.digests[w.t.Choose(stream, "dg.prev", len(w.digests))]
			return append([]byte(nil), p[:32]...)
		}
		return w.t.Bytes(stream, "dg.rnd", 32)
	default: // one bit away from an earlier digest
		if len(w.digests) > 0 {
			p := append([]byte(nil), w.digests[w.t.Choose(stream, "dg.prev", len(w.digests))][:32]...)
			bit := w.t.Choose(stream, "dg.bit", 256)
			p[bit/8] ^= 1 << (bit % 8)
			return p
		}
		return w.t.Bytes(stream, "dg.rnd", 32)
	}
}

// genDigest draws a digest of exactly `n` bytes (n may be < 32).
func (w *World) genDigest(stream string, n int) []byte {
	d := w.genDigest32(stream)
	if n <= 32 {
		d = d[:n]
	} else {
		d = append(d, w.t.Bytes(stream, "dg.tail", n-32)...)
	}
	if len(d) >= 32 {
		w.digests = append(w.digests, d)
	}
	return d
}

// genChunks draws a read-size schedule.
func (w *World) genChunks(stream string) []int {
	switch w.t.Choose(stream, "dev.delivery", 9) {
	case 0, 1, 2:
		return nil // full reads
	case 8:
		// a long run of empty reads "(0, nil)" - legal for an io.Reader,
		// discouraged, and exactly what retry counters are written against -
		// after 0..31 bytes have arrived; then the rest in one piece
		first := w.t.Choose(stream, "dev.emptyrun.after", 32)
		run := []int{4, 17, 99, 100, 101, 300}[w.t.Choose(stream, "dev.emptyrun.len", 6)]
		out := make([]int, 0, run+2)
		if first > 0 {
			out = append(out, first)
		}
		for i := 0; i < run; i++ {
			out = append(out, 0)
		}
		w.r.Fault("long_run_of_empty_reads")
		return append(out, 64)
	case 3:
		return []int{1}
	case 4:
		return []int{31, 1}
	case 5:
		return []int{1, 31}
	case 6:
		return []int{16}
	}
	n := 1 + w.t.Choose(stream, "dev.nchunks", 8)
	out := make([]int, 0, n)
	zeros := 0
	for i := 0; i < n; i++ {
		c := w.t.Choose(stream, "dev.chunk", 34)
		if c == 0 {
			zeros++
			if zeros > 3 {
				c = 1
				zeros = 0
			}
		} else {
			zeros = 0
		}
		out = append(out, c)
	}
	// an all-zero cyclic schedule would make io.ReadFull spin: not a legal fault
	all0 := true
	for _, c := range out {
		if c != 0 {
			all0 = false
		}
	}
	if all0 {
		out = append(out, 1)
	}
	// at most 3 zero-length reads in a row also across the wrap-around
	if len(out) >= 2 && out[0] == 0 && out[len(out)-1] == 0 {
		out = append(out, 7)
	}
	return out
}

// genDevice draws a device configuration; maxBytes bounds the error
// position range.
func (w *World) genDevice(stream string, maxBytes int) kernel.DevCfg {
	cfg := kernel.DevCfg{ErrAt: -1, Seed: w.t.U64(stream, "dev.seed")}
	switch w.t.Choose(stream, "dev.payload", 12) {
	case 0, 1, 2, 3, 4, 5:
		cfg.Payload = kernel.PayPRNG
	case 6:
		cfg.Payload = kernel.PayConst
		cfg.Const = []byte{0x00, 0xff, 0x01, 0x80}[w.t.Choose(stream, "dev.const", 4)]
	case 7:
		cfg.Payload = kernel.PayConst
		cfg.Const = byte(w.t.Choose(stream, "dev.constb", 256))
	case 8:
		cfg.Payload = kernel.PayCounter
		cfg.Const = byte(w.t.Choose(stream, "dev.ctr0", 256))
	case 9:
		cfg.Payload = kernel.PayPeriodic
		cfg.Period = []int{1, 2, 16, 31, 32, 33}[w.t.Choose(stream, "dev.period", 6)]
	default: // replay of entropy already handed out earlier in this history (VM snapshot / fork)
		if len(w.events) > 0 {
			var pool [][]byte
			for _, ev := range w.events {
				if ev.ent != nil {
					pool = append(pool, ev.ent)
				}
			}
			for _, ev := range w.schs {
				pool = append(pool, ev.aux)
			}
			if len(pool) > 0 {
				cfg.Payload = kernel.PayScripted
				cfg.Script = append([]byte(nil), pool[w.t.Choose(stream, "dev.replay", len(pool))]...)
			}
		}
	}
	cfg.Chunks = w.genChunks(stream)
	if w.t.Chance(stream, "dev.std", 1, 6) {
		cfg.Std = 1 + w.t.Choose(stream, "dev.stdkind", kernel.StdKinds-1)
		w.r.Fault("device_presented_as_a_standard_library_reader")
	}
	if w.t.Chance(stream, "dev.helper", 1, 12) {
		cfg.Helper = true
		w.r.Fault("buffer_filled_by_helper_goroutine_while_the_callers_stack_moves")
	}
	if w.t.Chance(stream, "dev.reenter", 1, 10) {
		cfg.Reenter = true
		w.r.Fault("entropy_reader_calls_back_into_the_library")
	}
	if w.t.Chance(stream, "dev.gc", 1, 10) {
		cfg.GC = 1 + w.t.Choose(stream, "dev.gc.n", 2)
		w.r.Fault("garbage_collected_inside_the_entropy_read")
	}
	if w.t.Chance(stream, "dev.fail", 3, 10) {
		cfg.ErrAt = w.t.Choose(stream, "dev.errat", maxBytes+8)
		cfg.ErrKind = 1 + w.t.Choose(stream, "dev.errkind", 5)
		cfg.ErrWithData = w.t.Bool(stream, "dev.errdata")
	}
	return cfg
}

func scripted(ent []byte) *kernel.Device {
	return kernel.NewDevice(kernel.DevCfg{Payload: kernel.PayScripted, Script: append([]byte(nil), ent...), ErrAt: -1})
}

// countDeviceFaults records which fault kinds actually fired.
func (w *World) countDeviceFaults(d *kernel.Device) {
	short, zero, errs, withData := 0, 0, 0, 0
	for _, rec := range d.Log {
		if rec.Err != 0 {
			errs++
			if rec.N > 0 {
				withData++
			}
		} else if rec.N == 0 && rec.Req > 0 {
			zero++
		} else if rec.N < rec.Req {
			short++
		}
	}
	if short > 0 {
		w.r.Res.Faults["short_read"] += short
	}
	if zero > 0 {
		w.r.Res.Faults["zero_length_read"] += zero
	}
	if errs > 0 {
		w.r.Res.Faults["read_error"] += errs
		w.r.Res.Faults[fmt.Sprintf("read_error_at_%02d", d.Delivered)]++
	}
	if withData > 0 {
		w.r.Res.Faults["read_error_with_data"] += withData
	}
	switch d.Cfg.Payload {
	case kernel.PayConst:
		w.r.Fault("stuck_payload")
	case kernel.PayCounter:
		w.r.Fault("counter_payload")
	case kernel.PayPeriodic:
		w.r.Fault("periodic_payload")
	case kernel.PayScripted:
		w.r.Fault("scripted_or_replayed_payload")
	}
}

// ---------------------------------------------------------------- helpers

type callOut struct {
	panicked bool
	panicMsg string
}

func protect(f func()) (out callOut) {
	defer func() {
		if e := recover(); e != nil {
			out.panicked = true
			out.panicMsg = fmt.Sprint(e)
		}
	}()
	f()
	return
}

func scalarInt(s *secp256k1.Scalar) *big.Int { return ref.OS2IP(s.Bytes()) }

func mustScalar(v *big.Int) *secp256k1.Scalar {
	var b [32]byte
	v.FillBytes(b[:])
	s, err := secp256k1.NewScalarFromCanonicalBytes(&b)
	if err != nil {
		panic("harness: scalar out of range")
	}
	return s
}

// withGlobalRand runs f with crypto/rand.Reader replaced by dev (single
// task, so this is race free).
func withGlobalRand(dev io.Reader, f func()) {
	old := crand.Reader
	crand.Reader = dev
	defer func() { crand.Reader = old }()
	f()
}

// armReenter: a device announced as re-entrant signs with ANOTHER key (a
// bystander of the world, never one of the history's keys) inside its first
// Read - an ECDSA signature in RFC 6979 mode and a BIP-340 signature - while
// the call under test waits for its entropy.  What the call under test
// returns must be what it returns with a reader that minds its own business.
func (w *World) armReenter(dev *kernel.Device) {
	if dev == nil || !dev.Cfg.Reenter {
		return
	}
	if w.bystander == nil {
		b := bytes.Repeat([]byte{0x5b}, 32)
		k, err := secec.NewPrivateKey(b)
		if err != nil {
			return
		}
		w.bystander = k
		w.bystanderSch = bitcoin.NewSchnorrPrivateKeyFromECDSA(k)
	}
	done := false
	dev.Yield = func() {
		if done {
			return
		}
		done = true
		_ = protect(func() {
			dg := bytes.Repeat([]byte{0xb5}, 32)
			_, _, _, _ = w.bystander.SignRaw(secec.RFC6979SHA256(), dg)
			_, _ = w.bystanderSch.Sign(scripted(dg), []byte("a record the reader signs"), nil)
		})
	}
}

// ---------------------------------------------------------------- run

// Run executes one seeded history.
func Run(run *kernel.Run, prop string) {
	w := &World{r: run, t: run.T, prop: prop, byR: map[string]int{}, byK: map[string]int{}, byTriple: map[string]int{}}
	if !w.buildFixture() {
		return
	}
	w.offerElsewhere = w.t.Chance("cfg", "offer_signature_for_another_digest_first", 1, 3)
	run.Res.Cfg["offer_elsewhere"] = w.offerElsewhere
	// swarm: per-run op-mix weights
	weights := w.opWeights()
	total := 0
	for _, x := range weights {
		total += x
	}
	step := 0
	for step < maxOps*kernel.Depth && (w.t.Choose("ops", "more", 16*kernel.Depth) != 0 || step == 0) {
		step++
		c := w.t.Choose("ops", "kind", total)
		k := 0
		for c >= weights[k] {
			c -= weights[k]
			k++
		}
		run.Res.Ops++
		switch k {
		case 0:
			w.opSignECDSA(step)
		case 1:
			w.opVariation(step)
		case 2:
			w.opSchnorr(step)
		case 3:
			w.opSampler(step, false)
		case 4:
			w.opSampler(step, true)
		case 5:
			w.opDrbg(step)
		case 6:
			w.opSchnorrVariation(step)
		case 7:
			w.opLongHistory(step)
		case 8:
			w.opWipeKeyBuffer(step)
		case 9:
			w.opPreHashBurst(step)
		case 11:
			w.opKeyChurn(step)
		case 10:
			// the garbage collector as a fault the tape decides: one or two
			// complete collections (two empty every sync.Pool), finalizers
			// run to completion, between two operations of the history
			n := 1 + w.t.Choose("ops", "gc.n", 2)
			kernel.CollectGarbage(n)
			w.r.Fault(fmt.Sprintf("garbage_collected_x%d", n))
			w.r.Hist("%d gc x%d", step, n)
		}
		w.checkHeld(step)
	}
	run.Res.Steps = step
	run.Res.Cfg["keys"] = len(w.keys)
	run.Res.Cfg["weights"] = weights
}

func (w *World) opWeights() []int {
	// kinds: ecdsa, variation, schnorr, sampler(hook), generatekey, drbg, schnorr-variation, long history, wipe key buffer, pre-hash burst, garbage collection, key-object churn
	base := []int{8, 6, 3, 2, 1, 1, 1, 2, 1, 0, 1, 1}
	switch w.prop {
	case "C14":
		base = []int{2, 1, 10, 0, 0, 0, 5, 0, 1, 1, 1, 1}
	case "C08":
		base = []int{10, 5, 1, 0, 1, 0, 0, 4, 1, 0, 1, 1}
	}
	// swarm: knock out or boost some kinds per run
	out := make([]int, len(base))
	for i, b := range base {
		switch w.t.Choose("cfg", fmt.Sprintf("w%d", i), 4) {
		case 0:
			out[i] = b
		case 1:
			out[i] = b * 3
		case 2:
			out[i] = b
		case 3:
			out[i] = 0
		}
	}
	sum := 0
	for _, x := range out {
		sum += x
	}
	if sum == 0 {
		copy(out, base)
	}
	return out
}

// VerifyFirstWarmUp makes verifications the first thing the process does
// with the library (BIP-340 test vector 0 and an ECDSA signature by d = 1):
// nothing has derived a key or signed yet.
func VerifyFirstWarmUp() {
	pkb := ref.I2OSP32(ref.BaseMul(big.NewInt(3)).X)
	if pk, err := bitcoin.NewSchnorrPublicKey(pkb); err == nil {
		sig, _ := ref.BIP340Sign(big.NewInt(3), make([]byte, 32), make([]byte, 32))
		_ = pk.Verify(make([]byte, 32), sig)
	}
	if pub, err := secec.NewPublicKey(ref.G().Compressed()); err == nil {
		dg := bytes.Repeat([]byte{0x5a}, 32)
		want, _ := ref.RFC6979Sign(big.NewInt(1), dg)
		_ = pub.VerifyRaw(dg, mustScalar(want.R), mustScalar(want.S))
	}
}
