package sign

import (
	"fmt"
	"math/big"

	"verif/sim/kernel"
	"verif/sim/ref"
)

// The exhaustive single-fault layer: a finite, fully enumerated space of
// single faults at the entropy seam, the candidate stream and the RFC 6979
// generator.  Sharded by run index so that 16 processes cover it once.

// EnumShards is the number of shards the enumeration is cut into.
const EnumShards = 16

type enumCase struct {
	name string
	run  func(step int)
}

// RunEnum runs shard `shard` of the enumeration.
func RunEnum(run *kernel.Run, prop string, shard int) {
	w := &World{r: run, t: run.T, prop: prop, byR: map[string]int{}, byK: map[string]int{}, byTriple: map[string]int{}}
	// Fixed fixture shape (2 keys), values from the tape so that VERIF_SEED
	// varies them: one random key, one boundary key.
	if !w.buildEnumFixture() {
		return
	}
	cases := w.enumCases()
	run.Res.Cfg["enum_total_cases"] = len(cases)
	run.Res.Cfg["enum_shards"] = EnumShards
	n := 0
	distinct := map[string]bool{}
	nontrivial := 0
	for i, c := range cases {
		if i%EnumShards != shard%EnumShards {
			continue
		}
		n++
		// each case gets a fresh reuse history: cases are independent
		w.events, w.byR, w.byK, w.byTriple = nil, map[string]int{}, map[string]int{}, map[string]int{}
		w.schs = nil
		w.r.Note("case %d %s", i, c.name)
		f0 := run.FaultTotal()
		run.SubBegin()
		c.run(i)
		d := run.SubEnd()
		if !distinct[d] && run.FaultTotal() > f0 {
			nontrivial++
		}
		distinct[d] = true
	}
	run.Res.Cfg["enum_distinct_case_digests"] = len(distinct)
	run.Res.Cfg["enum_distinct_nontrivial_cases"] = nontrivial
	run.Res.Ops = n
	run.Res.Steps = n
}

func (w *World) buildEnumFixture() bool {
	// key 0: random; key 1: n-1 (odd/even y differ between runs by seed)
	ds := []*big.Int{nil, new(big.Int).Sub(ref.N, big.NewInt(1))}
	v := ref.OS2IP(w.t.Bytes("fixture", "enum.key0", 32))
	v.Mod(v, new(big.Int).Sub(ref.N, big.NewInt(1)))
	ds[0] = v.Add(v, big.NewInt(1))
	for i, d := range ds {
		if !w.addKey(i, d) {
			return false
		}
	}
	return true
}

func (w *World) enumCases() []enumCase {
	var cases []enumCase
	digest := w.t.Bytes("fixture", "enum.digest", 32)
	msg := w.t.Bytes("fixture", "enum.msg", 45)
	seed := w.t.U64("fixture", "enum.devseed")
	partitions := [][]int{nil, {1}, {31, 1}, {1, 31}, {16, 16}}
	for i := 0; i < 8; i++ {
		n := 2 + int(kernel.Expand(seed+uint64(i), 1)[0]%6)
		b := kernel.Expand(seed+uint64(100+i), n)
		var p []int
		for _, x := range b {
			p = append(p, 1+int(x)%33)
		}
		partitions = append(partitions, p)
	}
	withZeros := func(p []int) []int {
		if p == nil {
			return []int{0, 32}
		}
		out := []int{0}
		for i, c := range p {
			out = append(out, c)
			if i%2 == 0 {
				out = append(out, 0, 0)
			}
		}
		return out
	}

	type signerKind struct {
		name string
		run  func(step int, key int, cfg kernel.DevCfg)
	}
	kinds := []signerKind{
		{"Sign", func(step, key int, cfg kernel.DevCfg) {
			q := &ecdsaReq{key: key, api: apiSign, opts: nil, optsDesc: "nil", enc: 0, encValid: true, hashSize: -1, digest: digest, reader: rdDevice, dev: cfg}
			w.runECDSA(step, q)
		}},
		{"SignRaw", func(step, key int, cfg kernel.DevCfg) {
			q := &ecdsaReq{key: key, api: apiSignRaw, optsDesc: "-", encValid: true, hashSize: -1, digest: digest, reader: rdDevice, dev: cfg}
			w.runECDSA(step, q)
		}},
		{"SignNilRand", func(step, key int, cfg kernel.DevCfg) {
			q := &ecdsaReq{key: key, api: apiSignRaw, optsDesc: "-", encValid: true, hashSize: -1, digest: digest, reader: rdNilGlobal, dev: cfg}
			w.runECDSA(step, q)
		}},
		{"SchnorrSign", func(step, key int, cfg kernel.DevCfg) {
			w.runSchnorr(step, key, msg, cfg, false)
		}},
	}
	for _, sk := range kinds {
		sk := sk
		// every error position x error kind x delivery x (alone | with data)
		for j := 0; j <= 33; j++ {
			for kind := 1; kind <= 3; kind++ {
				for _, wd := range []bool{false, true} {
					for pi, p := range [][]int{nil, {1}, partitions[5], partitions[6]} {
						cfg := kernel.DevCfg{Payload: kernel.PayPRNG, Seed: seed + uint64(j), Chunks: p, ErrAt: j, ErrKind: kind, ErrWithData: wd}
						key := (j + pi) % 2
						cases = append(cases, enumCase{fmt.Sprintf("%s err@%d kind=%d withdata=%v part=%d", sk.name, j, kind, wd, pi), func(step int) { sk.run(step, key, cfg) }})
					}
				}
			}
		}
		// every length 0..33 (and a healthy 64) of every standard-library
		// reader type the device can be presented as: a reader that simply
		// ends after j bytes
		for j := -1; j <= 33; j++ {
			for std := 1; std < kernel.StdKinds; std++ {
				cfg := kernel.DevCfg{Payload: kernel.PayPRNG, Seed: seed + uint64(j+1), ErrAt: j, ErrKind: 1, Std: std}
				key := (j + std) & 1
				cases = append(cases, enumCase{fmt.Sprintf("%s std=%d ends@%d", sk.name, std, j), func(step int) { sk.run(step, key, cfg) }})
			}
		}
		// every partition with and without zero-length reads, healthy
		for pi, p := range partitions {
			for _, z := range []bool{false, true} {
				pp := p
				if z {
					pp = withZeros(p)
				}
				cfg := kernel.DevCfg{Payload: kernel.PayPRNG, Seed: seed + 77, Chunks: pp, ErrAt: -1}
				cases = append(cases, enumCase{fmt.Sprintf("%s partition=%d zeros=%v", sk.name, pi, z), func(step int) { sk.run(step, pi%2, cfg) }})
			}
		}
		// every stuck payload, twice on different digests via the variation check inside runECDSA
		stuck := []kernel.DevCfg{
			{Payload: kernel.PayConst, Const: 0x00, ErrAt: -1},
			{Payload: kernel.PayConst, Const: 0xff, ErrAt: -1},
			{Payload: kernel.PayConst, Const: 0x01, ErrAt: -1},
			{Payload: kernel.PayCounter, ErrAt: -1},
		}
		for _, per := range []int{1, 2, 16, 31, 32, 33} {
			stuck = append(stuck, kernel.DevCfg{Payload: kernel.PayPeriodic, Period: per, Seed: seed, ErrAt: -1})
		}
		for si, cfg := range stuck {
			cfg := cfg
			cases = append(cases, enumCase{fmt.Sprintf("%s stuck=%d", sk.name, si), func(step int) {
				// the same stuck device for both keys: r must differ (reuse oracle)
				sk.run(step, 0, cfg)
				sk.run(step, 1, cfg)
			}})
		}
	}
	// stuck entropy across different digests and keys (ECDSA): all pairs
	for _, c := range []byte{0x00, 0xff} {
		c := c
		cases = append(cases, enumCase{fmt.Sprintf("stuck %#x across digests and keys", c), func(step int) {
			cfg := kernel.DevCfg{Payload: kernel.PayConst, Const: c, ErrAt: -1}
			d2 := append([]byte(nil), digest...)
			d2[31] ^= 1
			for key := 0; key < 2; key++ {
				for _, dg := range [][]byte{digest, d2} {
					q := &ecdsaReq{key: key, api: apiSignRaw, optsDesc: "-", encValid: true, hashSize: -1, digest: dg, reader: rdDevice, dev: cfg}
					w.runECDSA(step, q)
				}
			}
		}})
	}

	// sampler: every candidate-class sequence of length <= 3
	var seqs [][]int
	for a := 0; a < 8; a++ {
		seqs = append(seqs, []int{a})
		for b := 0; b < 8; b++ {
			seqs = append(seqs, []int{a, b})
			for c := 0; c < 8; c++ {
				seqs = append(seqs, []int{a, b, c})
			}
		}
	}
	// pre-draw the two random candidate values once (tape: deterministic)
	randGE := w.genCandidate("fixture", 6)
	randLT := w.genCandidate("fixture", 7)
	cand := func(cl int) []byte {
		switch cl {
		case 6:
			return randGE
		case 7:
			return randLT
		}
		return w.genCandidate("fixture", cl)
	}
	mk := func(seq []int) ([]byte, [][]byte) {
		var script []byte
		var cs [][]byte
		for _, cl := range seq {
			c := cand(cl)
			script = append(script, c...)
			cs = append(cs, c)
		}
		// after the script: a guaranteed-valid tail so that the model knows
		// every candidate the sampler can possibly see
		for i := 0; i < 12; i++ {
			script = append(script, randLT...)
			cs = append(cs, randLT)
		}
		return script, cs
	}
	for si, seq := range seqs {
		seq := seq
		script, cs := mk(seq)
		for _, viaGK := range []bool{false, true} {
			if viaGK && len(seq) > 2 {
				continue
			}
			viaGK := viaGK
			cases = append(cases, enumCase{fmt.Sprintf("sampler seq=%v gk=%v", seq, viaGK), func(step int) {
				cfg := kernel.DevCfg{Payload: kernel.PayScripted, Script: script, ErrAt: -1}
				if si%3 == 1 {
					cfg.Chunks = []int{1}
				} else if si%3 == 2 {
					cfg.Chunks = []int{0, 13, 0, 0, 19}
				}
				RunSampler(w.r, step, viaGK, cfg, cs)
			}})
		}
	}
	// sampler: up to the retry limit and beyond (k invalid candidates then a valid one), k = 0..12
	for k := 0; k <= 12; k++ {
		for _, cl := range []int{0, 3, 5} {
			var script []byte
			var cs [][]byte
			for i := 0; i < k; i++ {
				script = append(script, cand(cl)...)
				cs = append(cs, cand(cl))
			}
			for i := 0; i < 14; i++ {
				script = append(script, randLT...)
				cs = append(cs, randLT)
			}
			k, cl := k, cl
			cases = append(cases, enumCase{fmt.Sprintf("sampler %d x class %d then valid", k, cl), func(step int) {
				RunSampler(w.r, step, false, kernel.DevCfg{Payload: kernel.PayScripted, Script: script, ErrAt: -1}, cs)
			}})
		}
	}
	// sampler: error positions 0..96 on [invalid, invalid, valid]
	for _, seq := range [][]int{{3, 0, 7}, {7}, {5, 7}} {
		script, cs := mk(seq)
		for j := 0; j <= 96; j++ {
			for _, wd := range []bool{false, true} {
				j, wd := j, wd
				cases = append(cases, enumCase{fmt.Sprintf("sampler seq=%v err@%d withdata=%v", seq, j, wd), func(step int) {
					cfg := kernel.DevCfg{Payload: kernel.PayScripted, Script: script, ErrAt: j, ErrKind: 1 + j%3, ErrWithData: wd}
					if j%2 == 1 {
						cfg.Chunks = []int{7}
					}
					RunSampler(w.r, step, j%5 == 0, cfg, cs)
				}})
			}
		}
	}

	// RFC 6979 generator: boundary keys x boundary digests x reads 1..6
	digs := [][]byte{make([]byte, 32), nPlus(-1), nPlus(0), nPlus(1), ref.I2OSP32(new(big.Int).Sub(twoTo256, big.NewInt(1))), digest}
	xs := append([]*big.Int{}, boundaryScalars...)
	xs = append(xs, w.keys[0].d)
	for _, x := range xs {
		for _, dg := range digs {
			for bm := 0; bm < 4; bm++ {
				x, dg, bm := x, dg, bm
				cases = append(cases, enumCase{fmt.Sprintf("drbg x=%x dg=%x bufmode=%d", x, dg, bm), func(step int) { RunDrbg(w.r, step, x, dg, 6, bm) }})
			}
		}
	}
	// RFC 6979 signatures through the public API on the same grid
	for ki := range w.keys {
		for _, dg := range digs {
			ki, dg := ki, dg
			cases = append(cases, enumCase{fmt.Sprintf("rfc6979 sign key=%d dg=%x", ki, dg), func(step int) {
				q := &ecdsaReq{key: ki, api: apiSignRaw, optsDesc: "-", encValid: true, hashSize: -1, digest: dg, reader: rdRFC6979}
				w.runECDSA(step, q)
				q2 := &ecdsaReq{key: ki, api: apiSignRaw, optsDesc: "-", encValid: true, hashSize: -1, digest: append(append([]byte(nil), dg...), 0xAA, 0xBB), reader: rdRFC6979}
				w.runECDSA(step, q2)
			}})
		}
	}
	return cases
}
