package sign

import (
	"bytes"
	"crypto"
	crand "crypto/rand"
	_ "crypto/sha1"
	_ "crypto/sha512"
	"fmt"
	_ "golang.org/x/crypto/blake2b"
	_ "golang.org/x/crypto/blake2s"
	_ "golang.org/x/crypto/sha3"
	"io"
	"math/big"

	secp256k1 "gitlab.com/yawning/secp256k1-voi"
	"gitlab.com/yawning/secp256k1-voi/secec"
	"gitlab.com/yawning/secp256k1-voi/secec/bitcoin"

	"verif/sim/kernel"
	"verif/sim/ref"
)

// ---------------------------------------------------------------- ECDSA request

const (
	apiSign = iota
	apiSignRaw
)

const (
	rdDevice = iota
	rdRFC6979
	rdNilGlobal
	rdExplicitGlobal // crypto/rand.Reader itself is passed as `rand` (and is the device)
)

type ecdsaReq struct {
	key        int
	api        int
	optsDesc   string
	opts       crypto.SignerOpts
	enc        secec.SignatureEncoding
	encValid   bool
	selfVerify bool
	hashSize   int // -1: no length rule beyond >= 32
	digest     []byte
	reader     int
	dev        kernel.DevCfg
	// lastUse: the call is made on a key object imported from the key's
	// bytes for this call alone - nothing references the object once the
	// call has begun
	lastUse bool
}

type ecdsaOut struct {
	sig      []byte
	r, s     *secp256k1.Scalar
	v        byte
	err      error
	panicked bool
	panicMsg string
	dev      *kernel.Device
}

func (q *ecdsaReq) desc() string {
	api := "Sign"
	if q.api == apiSignRaw {
		api = "SignRaw"
	}
	rd := "dev[" + q.dev.Summary() + "]"
	switch q.reader {
	case rdRFC6979:
		rd = "RFC6979SHA256()"
	case rdNilGlobal:
		rd = "nil(crypto/rand.Reader=dev[" + q.dev.Summary() + "])"
	case rdExplicitGlobal:
		rd = "crypto/rand.Reader(=dev[" + q.dev.Summary() + "])"
	}
	if q.lastUse {
		api += "(on a key object imported for this call alone)"
	}
	return fmt.Sprintf("%s key=%d opts=%s digest=%x rand=%s", api, q.key, q.optsDesc, q.digest, rd)
}

func (q *ecdsaReq) admissible() (bool, string) {
	if len(q.digest) < 32 {
		return false, "digest shorter than 32 bytes"
	}
	if q.api == apiSign {
		if q.hashSize >= 0 && len(q.digest) != q.hashSize {
			return false, "digest length does not match the selected hash"
		}
		if !q.encValid {
			return false, "unknown signature encoding"
		}
	}
	return true, ""
}

// badEncodings are SignatureEncoding values that name no encoding,
// including values whose low 8 / 16 / 32 bits look like a valid one.
var badEncodings = func() []secec.SignatureEncoding {
	var out []secec.SignatureEncoding
	for _, v := range []int64{3, -1, 255, 256, 257, 258, 512, -256, -255, 65536, 65538, 1 << 32, 1<<32 + 1, -1 << 63, 1<<63 - 1, 4} {
		// on a 32-bit platform only the values that fit into an int
		if int64(int(v)) == v {
			out = append(out, secec.SignatureEncoding(int(v)))
		}
	}
	return out
}()

// hashCatalogue: hash functions a caller may name in its options: several
// with 32-byte output that are not SHA-256, longer ones, ones whose digests
// are too short to be signed at all; most are linked into this program
// (Available() is true), the last three are not.
var hashCatalogue = []crypto.Hash{crypto.SHA3_256, crypto.SHA512_256, crypto.BLAKE2s_256, crypto.BLAKE2b_256, crypto.SHA3_512, crypto.SHA3_384, crypto.BLAKE2b_512, crypto.BLAKE2b_384, crypto.SHA224, crypto.SHA1,
	// not linked into this program (Available() is false; Size() is known)
	crypto.MD5SHA1, crypto.RIPEMD160, crypto.MD4}

// foreignOpts is a crypto.SignerOpts that is neither a crypto.Hash nor the
// library's own options type.
type foreignOpts struct{ h crypto.Hash }

func (o foreignOpts) HashFunc() crypto.Hash { return o.h }

// genOpts draws the options for a Sign call.
func (w *World) genOpts(stream string, q *ecdsaReq) {
	q.enc, q.encValid, q.hashSize = secec.EncodingASN1, true, -1
	switch w.t.Choose(stream, "opts.kind", 8) {
	case 0:
		q.opts, q.optsDesc = nil, "nil"
	case 1:
		q.opts, q.optsDesc, q.hashSize = crypto.SHA256, "crypto.SHA256", 32
	case 2:
		q.opts, q.optsDesc, q.hashSize = crypto.SHA512, "crypto.SHA512", 64
	case 3:
		// any other hash: the options name the hash that produced the
		// digest, for length validation only
		h := hashCatalogue[w.t.Choose(stream, "opts.anyhash", len(hashCatalogue))]
		q.opts, q.optsDesc, q.hashSize = h, fmt.Sprintf("crypto.Hash(%d)=%s", h, h), h.Size()
	case 4:
		// options of somebody else's type (crypto.SignerOpts is an
		// interface; callers pass what their framework hands them)
		h := hashCatalogue[w.t.Choose(stream, "opts.anyhash", len(hashCatalogue))]
		if w.t.Bool(stream, "opts.foreign.sha256") {
			h = crypto.SHA256
		}
		q.opts, q.optsDesc, q.hashSize = foreignOpts{h}, fmt.Sprintf("foreignOpts{%s}", h), h.Size()
	default:
		// the options object is the caller's: two times out of three it is
		// one that earlier calls of this history already used, with its
		// fields rewritten for this call (what an options value said on an
		// earlier call must not matter)
		o := &secec.ECDSAOptions{}
		if len(w.optsPool) > 0 && w.t.Chance(stream, "opts.reuse", 2, 3) {
			o = w.optsPool[w.t.Choose(stream, "opts.which", len(w.optsPool))]
			w.r.Fault("caller_reuses_and_rewrites_options_object")
		} else if len(w.optsPool) < 3 {
			w.optsPool = append(w.optsPool, o)
		}
		switch w.t.Choose(stream, "opts.hash", 7) {
		case 0, 1:
			o.Hash, q.hashSize = crypto.Hash(0), 32
		case 2:
			o.Hash, q.hashSize = crypto.SHA256, 32
		case 3:
			o.Hash, q.hashSize = crypto.SHA512, 64
		case 4:
			o.Hash, q.hashSize = crypto.SHA384, 48
		default:
			o.Hash = hashCatalogue[w.t.Choose(stream, "opts.anyhash", len(hashCatalogue))]
			q.hashSize = o.Hash.Size()
		}
		e := w.t.Choose(stream, "opts.enc", 10)
		switch {
		case e < 3:
			o.Encoding = secec.EncodingASN1
		case e < 6:
			o.Encoding = secec.EncodingCompact
		case e < 9:
			o.Encoding = secec.EncodingCompactRecoverable
		default:
			o.Encoding = badEncodings[w.t.Choose(stream, "opts.badenc", len(badEncodings))]
			q.encValid = false
		}
		o.SelfVerify = w.t.Bool(stream, "opts.selfverify")
		o.RejectMalleable = w.t.Bool(stream, "opts.rejmal") // must be irrelevant for signing
		q.opts, q.enc, q.selfVerify = o, o.Encoding, o.SelfVerify
		q.optsDesc = fmt.Sprintf("&ECDSAOptions{Hash:%d Encoding:%d SelfVerify:%v}", o.Hash, o.Encoding, o.SelfVerify)
	}
}

func (w *World) genECDSAReq(stream string) *ecdsaReq {
	q := &ecdsaReq{}
	q.key = w.t.Choose(stream, "key", len(w.keys))
	if w.t.Chance(stream, "api.raw", 1, 3) {
		q.api = apiSignRaw
		q.optsDesc = "-"
		q.hashSize = -1
		q.encValid = true
	} else {
		w.genOpts(stream, q)
	}
	// digest length: mostly admissible
	n := 32
	if q.hashSize > 0 {
		n = q.hashSize
	}
	switch w.t.Choose(stream, "dg.len", 12) {
	case 0: // inadmissible or unusual length
		n = []int{0, 1, 20, 31, 33, 48, 63, 64, 65}[w.t.Choose(stream, "dg.oddlen", 9)]
	case 1:
		if q.hashSize < 0 {
			n = 32 + w.t.Choose(stream, "dg.longlen", 33)
		}
	}
	q.digest = w.genDigest(stream, n)
	switch w.t.Choose(stream, "reader", 9) {
	case 6:
		q.reader = rdRFC6979
	case 7:
		q.reader = rdNilGlobal
		q.dev = w.genDevice(stream, 32)
	case 8:
		q.reader = rdExplicitGlobal
		q.dev = w.genDevice(stream, 32)
	default:
		q.reader = rdDevice
		q.dev = w.genDevice(stream, 32)
	}
	if w.t.Chance(stream, "lastuse", 1, 6) {
		q.lastUse = true
		w.r.Fault("call_is_the_last_use_of_its_key_object")
	}
	return q
}

// signLastUse / signRawLastUse import the key and make the signing call the
// only use of the object: the caller holds no reference while the library
// works (and waits for the entropy reader).
//
//go:noinline
func signLastUse(db []byte, rd io.Reader, digest []byte, opts crypto.SignerOpts) ([]byte, error) {
	k, err := secec.NewPrivateKey(append([]byte(nil), db...))
	if err != nil {
		return nil, err
	}
	return k.Sign(rd, digest, opts)
}

//go:noinline
func signRawLastUse(db []byte, rd io.Reader, digest []byte) (*secp256k1.Scalar, *secp256k1.Scalar, byte, error) {
	k, err := secec.NewPrivateKey(append([]byte(nil), db...))
	if err != nil {
		return nil, nil, 0, err
	}
	return k.SignRaw(rd, digest)
}

//go:noinline
func schnorrSignLastUse(db []byte, rd io.Reader, msg []byte, opts crypto.SignerOpts) ([]byte, error) {
	k, err := secec.NewPrivateKey(append([]byte(nil), db...))
	if err != nil {
		return nil, err
	}
	return bitcoin.NewSchnorrPrivateKeyFromECDSA(k).Sign(rd, msg, opts)
}

// execECDSA performs the call.
func (w *World) execECDSA(q *ecdsaReq) *ecdsaOut {
	out := &ecdsaOut{}
	sg := w.keys[q.key]
	var rd io.Reader
	switch q.reader {
	case rdRFC6979:
		rd = secec.RFC6979SHA256()
	case rdNilGlobal, rdExplicitGlobal:
		out.dev = kernel.NewDevice(q.dev)
		rd = nil
	default:
		out.dev = kernel.NewDevice(q.dev)
		rd = out.dev.Reader()
	}
	w.armReenter(out.dev)
	call := func() {
		if q.reader == rdExplicitGlobal {
			rd = crand.Reader // the device, installed by withGlobalRand
		}
		switch {
		case q.lastUse && q.api == apiSign:
			out.sig, out.err = signLastUse(sg.dBytes, rd, q.digest, q.opts)
		case q.lastUse:
			out.r, out.s, out.v, out.err = signRawLastUse(sg.dBytes, rd, q.digest)
		case q.api == apiSign:
			out.sig, out.err = sg.priv.Sign(rd, q.digest, q.opts)
		default:
			out.r, out.s, out.v, out.err = sg.priv.SignRaw(rd, q.digest)
		}
	}
	var po callOut
	run := func() {
		if q.reader == rdNilGlobal || q.reader == rdExplicitGlobal {
			withGlobalRand(out.dev.Reader(), func() { po = protect(call) })
		} else {
			po = protect(call)
		}
	}
	if out.dev != nil && q.dev.Helper {
		// on a goroutine of its own, whose stack is still small: the
		// device's Read is then certain to make the runtime move it
		kernel.OnFreshStack(run)
	} else {
		run()
	}
	if out.dev != nil {
		out.dev.Settle()
	}
	out.panicked, out.panicMsg = po.panicked, po.panicMsg
	return out
}

// canonicalResign signs (key, digest) again through SignRaw with the
// entropy delivered in one full read (or in RFC 6979 mode).
func (w *World) canonicalResign(key int, digest, ent []byte) (r, s *big.Int, v byte, err error) {
	var rd io.Reader
	if ent == nil {
		rd = secec.RFC6979SHA256()
	} else {
		rd = scripted(ent)
	}
	var rs, ss *secp256k1.Scalar
	po := protect(func() { rs, ss, v, err = w.keys[key].priv.SignRaw(rd, digest) })
	if po.panicked {
		return nil, nil, 0, fmt.Errorf("panic: %s", po.panicMsg)
	}
	if err != nil {
		return nil, nil, 0, err
	}
	return scalarInt(rs), scalarInt(ss), v, nil
}

func (w *World) opSignECDSA(step int) {
	q := w.genECDSAReq("ops")
	w.runECDSA(step, q)
}

// runECDSA executes and judges one ECDSA signing request.
func (w *World) runECDSA(step int, q *ecdsaReq) *sigEvent {
	out := w.execECDSA(q)
	if out.dev != nil {
		w.countDeviceFaults(out.dev)
	}
	okAdm, why := q.admissible()
	outcome := "ok"
	if out.panicked {
		outcome = "panic:" + out.panicMsg
	} else if out.err != nil {
		outcome = "error"
	}
	devLog := ""
	if out.dev != nil {
		devLog = fmt.Sprintf(" delivered=%d reads=%d", out.dev.Delivered, len(out.dev.Log))
	}
	if out.sig != nil {
		w.r.Hist("%d %s -> %s sig=%x%s", step, q.desc(), outcome, out.sig, devLog)
	} else if out.r != nil {
		w.r.Hist("%d %s -> %s r=%x s=%x v=%d%s", step, q.desc(), outcome, out.r.Bytes(), out.s.Bytes(), out.v, devLog)
	} else {
		w.r.Hist("%d %s -> %s%s", step, q.desc(), outcome, devLog)
	}
	if out.err != nil {
		w.r.Note("   err=%v", out.err)
	}

	opKey := "Sign"
	if q.api == apiSignRaw {
		opKey = "SignRaw"
	}
	if out.panicked && out.panicMsg == kernel.DevicePanicMsg && out.dev != nil && q.dev.ErrKind == kernel.ErrPanic {
		// the caller's own reader panicked and the caller recovered: no
		// signature, no verdict; what matters is how the key behaves in the
		// operations that follow
		w.r.Fault("reader_panicked_and_the_caller_recovered")
		return nil
	}
	if out.panicked {
		w.r.Violate("C08", "sign-panic", opKey, step, "%s panicked: %s", q.desc(), out.panicMsg)
		return nil
	}
	succeeded := out.err == nil
	gotSomething := out.sig != nil || out.r != nil || out.s != nil
	if !succeeded && gotSomething {
		w.r.Violate("C09", "signature-with-error", opKey, step, "%s returned an error together with signature material", q.desc())
	}

	// --- admissibility (C08)
	if !okAdm {
		w.r.Probe("inadmissible_request")
		if succeeded {
			w.r.Violate("C08", "inadmissible-signed", opKey+":"+why, step, "%s: %s, yet a signature was returned", q.desc(), why)
		}
		return nil
	}

	// --- device faults (C09 abort-on-error / short reads completed)
	systemSource := q.reader == rdNilGlobal || q.reader == rdExplicitGlobal
	mustFail, mayFail := false, false
	if q.reader != rdRFC6979 {
		switch {
		case q.dev.ErrAt >= 0 && q.dev.ErrAt < 32:
			mustFail = true
		case q.dev.ErrAt == 32:
			mayFail = true // byte 32 and the error may arrive in the same Read
		}
	}
	if mustFail {
		w.r.Probe(fmt.Sprintf("err_before_32"))
		if succeeded {
			w.r.Violate("C09", "signed-despite-read-error", opKey, step, "%s: device failed after %d bytes, yet a signature was returned", q.desc(), q.dev.ErrAt)
		}
		return nil
	}
	if !succeeded {
		if mayFail {
			return nil
		}
		if q.api == apiSign && q.selfVerify {
			// does the same request succeed with self-verification off?
			if o, ok := q.opts.(*secec.ECDSAOptions); ok {
				q2 := *q
				o2 := *o
				o2.SelfVerify = false
				q2.opts, q2.selfVerify = &o2, false
				if out2 := w.execECDSA(&q2); !out2.panicked && out2.err == nil {
					w.r.Violate("C08", "selfverify-changes-output", "fails-only-with-selfverify", step, "%s failed (%v), but the same request with SelfVerify=false succeeds: turning on self-verification changed the outcome", q.desc(), out.err)
					return nil
				}
			}
		}
		if out.dev != nil && out.dev.MaxEmptyRun() > kernel.PatienceBound {
			// failing closed on a reader that makes no progress for a long
			// time is not what the property forbids (signing without the
			// entropy is)
			w.r.Probe("gave_up_with_an_error_after_a_long_run_of_empty_reads")
			return nil
		}
		if systemSource && q.dev.ErrAt >= 0 {
			// The device stands in for the SYSTEM entropy source here, and it
			// fails at some point: a library may ask the system source for
			// more than the 32 bytes that hedge the nonce (a blinding mask),
			// and failing closed when that read fails is not forbidden.
			w.r.Probe("system_source_failed_beyond_byte_32_and_the_call_failed")
			return nil
		}
		w.r.Violate("C09", "healthy-read-failed", opKey, step, "%s: no device error within the first 32 bytes, yet signing failed: %v", q.desc(), out.err)
		return nil
	}

	// --- success: what did we get?
	var r, s *big.Int
	v, haveV := byte(0), false
	if q.api == apiSignRaw {
		if out.r == nil || out.s == nil {
			w.r.Violate("C08", "nil-scalars", opKey, step, "%s: success with nil r/s", q.desc())
			return nil
		}
		r, s, v, haveV = scalarInt(out.r), scalarInt(out.s), out.v, true
	} else {
		var perr string
		r, s, v, haveV, perr = w.parseSig(q.enc, out.sig)
		if perr != "" {
			w.r.Violate("C08", "encoding-does-not-parse", fmt.Sprintf("Sign:enc=%d", q.enc), step, "%s: output %x: %s", q.desc(), out.sig, perr)
			return nil
		}
	}

	// --- exact consumption (C09)
	var ent []byte
	mode := "rfc6979"
	if out.dev != nil {
		mode = "hedged"
		if systemSource && out.dev.Delivered > 32 {
			// More than 32 bytes were taken from the SYSTEM source during
			// the call.  The statement fixes what the nonce depends on - 32
			// bytes of entropy - not what else a library may use system
			// randomness for (a blinding mask sampled on first use); which
			// 32 of the bytes hedged the nonce cannot be known from outside,
			// so only the signature's validity is judged (C08), and the event
			// takes no part in the entropy-dependent oracles.  Through a
			// reader of the caller's own the same signer is held to exactly
			// 32 bytes.
			w.r.Probe("system_source_read_beyond_the_32_entropy_bytes")
			ev := &sigEvent{step: step, key: q.key, digest: q.digest, mode: "hedged", r: r, s: s, v: v, sigDesc: q.desc()}
			ev.e, _ = ref.DigestToE(q.digest)
			if !haveV {
				return nil
			}
			if po := protect(func() { w.checkSigEvent(ev) }); po.panicked {
				w.r.Violate("C08", "verification-panics", opKey, step, "%s produced (r=%x s=%x v=%d); verifying / recovering / re-encoding that signature with the library panicked: %s", q.desc(), r, s, v, po.panicMsg)
			}
			return nil
		}
		if out.dev.Delivered != 32 {
			w.r.Violate("C09", "entropy-consumption", opKey, step, "%s: signer consumed %d bytes of entropy, must be exactly 32", q.desc(), out.dev.Delivered)
			return nil
		}
		ent = append([]byte(nil), out.dev.Bytes[:32]...)
		if len(q.dev.Chunks) > 0 {
			w.r.Probe("signed_over_chunked_device")
		}
	}

	// --- deterministic function of (key, digest, entropy): the canonical
	// re-sign (single full read of the same 32 bytes) gives the same (r,s,v)
	r0, s0, v0, err0 := w.canonicalResign(q.key, q.digest, ent)
	if err0 != nil {
		w.r.Violate("C09", "resign-failed", opKey, step, "%s succeeded but SignRaw with the same 32 entropy bytes in one read failed: %v", q.desc(), err0)
		return nil
	}
	if r0.Cmp(r) != 0 || s0.Cmp(s) != 0 || (haveV && v0 != v) {
		cls, prop := "chunking-observable", "C09"
		if len(q.dev.Chunks) == 0 || q.reader == rdRFC6979 {
			cls = "sign-vs-signraw-mismatch"
		}
		w.r.Violate(prop, cls, opKey, step, "%s gave (r=%x s=%x v=%d), the same key/digest/entropy through SignRaw in one read gave (r=%x s=%x v=%d)", q.desc(), r, s, v, r0, s0, v0)
		return nil
	}
	v = v0

	if out.sig != nil {
		w.hold(step, q, out.sig)
	}
	ev := &sigEvent{step: step, key: q.key, digest: q.digest, mode: mode, ent: ent, r: r, s: s, v: v, sigDesc: q.desc()}
	ev.e, _ = ref.DigestToE(q.digest)
	// the postconditions call the library's verification, recovery and
	// builders: a panic in there is the library's, not the harness's
	if po := protect(func() { w.checkSigEvent(ev) }); po.panicked {
		w.r.Violate("C08", "verification-panics", opKey, step, "%s produced (r=%x s=%x v=%d); verifying / recovering / re-encoding that signature with the library panicked: %s", q.desc(), r, s, v, po.panicMsg)
	}
	w.checkSelfVerifyInvariance(ev)
	w.recordAndCheckReuse(ev)
	if mode == "rfc6979" {
		w.checkRFC6979(ev)
	}
	return ev
}

// hold keeps the byte slice a Sign call returned (the slice itself, not a
// copy) together with a snapshot, so that later steps can check that the
// bytes the caller was given stay the caller's.
func (w *World) hold(step int, q *ecdsaReq, sig []byte) {
	if len(w.held) >= 24 {
		w.held = w.held[1:]
	}
	w.held = append(w.held, heldSig{step: step, desc: q.desc(), sig: sig, snap: append([]byte(nil), sig...), enc: q.enc})
}

// checkHeld: every signature handed out earlier in this history still holds
// the bytes it held when it was returned.
func (w *World) checkHeld(step int) {
	for i := range w.held {
		h := &w.held[i]
		if h.reported || bytes.Equal(h.sig, h.snap) {
			continue
		}
		h.reported = true
		w.r.Violate("C08", "returned-signature-changed-later", fmt.Sprintf("Sign:enc=%d", h.enc), step, "the signature returned at step %d by %s was %x when it was returned and reads %x at step %d: the bytes handed to the caller are still being written by the library", h.step, h.desc, h.snap, h.sig, step)
	}
	if len(w.held) > 1 {
		w.r.Probe("held_signatures_rechecked")
	}
	for _, e := range w.schs {
		if e.reported || bytes.Equal(e.sig, e.snap) {
			continue
		}
		e.reported = true
		w.r.Violate("C14", "returned-signature-changed-later", "SchnorrSign", step, "the Schnorr signature returned for key=%d msg=%x was %x when it was returned and reads %x at step %d: the bytes handed to the caller are still being written by the library", e.key, e.msg, e.snap, e.sig, step)
	}
	if len(w.schs) > 1 {
		w.r.Probe("held_schnorr_signatures_rechecked")
	}
}

// parseSig parses Sign output with the model's parsers and cross-checks the
// library's parsers.
func (w *World) parseSig(enc secec.SignatureEncoding, sig []byte) (r, s *big.Int, v byte, haveV bool, perr string) {
	switch enc {
	case secec.EncodingASN1:
		var err error
		r, s, err = ref.ParseDERSig(sig)
		if err != nil {
			return nil, nil, 0, false, "not strict DER SEQUENCE{INTEGER,INTEGER}"
		}
		lr, ls, lerr := secec.ParseASN1Signature(sig)
		if lerr != nil || scalarInt(lr).Cmp(r) != 0 || scalarInt(ls).Cmp(s) != 0 {
			return nil, nil, 0, false, fmt.Sprintf("library ParseASN1Signature disagrees (err=%v)", lerr)
		}
	case secec.EncodingCompact, secec.EncodingCompactRecoverable:
		want := 64
		if enc == secec.EncodingCompactRecoverable {
			want = 65
		}
		if len(sig) != want {
			return nil, nil, 0, false, fmt.Sprintf("length %d, want %d", len(sig), want)
		}
		r, s = ref.OS2IP(sig[:32]), ref.OS2IP(sig[32:64])
		if enc == secec.EncodingCompactRecoverable {
			v, haveV = sig[64], true
			lr, ls, lv, lerr := secec.ParseCompactRecoverableSignature(sig)
			if lerr != nil || scalarInt(lr).Cmp(r) != 0 || scalarInt(ls).Cmp(s) != 0 || lv != v {
				return nil, nil, 0, false, fmt.Sprintf("library ParseCompactRecoverableSignature disagrees (err=%v)", lerr)
			}
		} else {
			lr, ls, lerr := secec.ParseCompactSignature(sig)
			if lerr != nil || scalarInt(lr).Cmp(r) != 0 || scalarInt(ls).Cmp(s) != 0 {
				return nil, nil, 0, false, fmt.Sprintf("library ParseCompactSignature disagrees (err=%v)", lerr)
			}
		}
	default:
		return nil, nil, 0, false, "unknown encoding"
	}
	return r, s, v, haveV, ""
}

func hashForLen(n int) (crypto.Hash, bool) {
	switch n {
	case 32:
		return crypto.SHA256, true
	case 48:
		return crypto.SHA384, true
	case 64:
		return crypto.SHA512, true
	}
	return 0, false
}

// checkSigEvent: the C08 postconditions on one successful signing event.
func (w *World) checkSigEvent(ev *sigEvent) {
	sg := w.keys[ev.key]
	step := ev.step
	r, s, v := ev.r, ev.s, ev.v
	w.r.Probe("sign_events")
	if ref.OS2IP(ev.digest[:32]).Cmp(ref.N) >= 0 {
		w.r.Probe("digest_ge_n_signed")
	}
	if len(ev.digest) > 32 {
		w.r.Probe("digest_longer_than_32_signed")
	}
	// range and low-s
	if r.Sign() <= 0 || r.Cmp(ref.N) >= 0 {
		w.r.Violate("C08", "r-out-of-range", "sign", step, "%s: r=%x not in [1,n)", ev.sigDesc, r)
		return
	}
	if s.Sign() <= 0 || s.Cmp(ref.HalfN) > 0 {
		w.r.Violate("C08", "s-not-low", "sign", step, "%s: s=%x not in [1,(n-1)/2]", ev.sigDesc, s)
		return
	}
	if v > 3 {
		w.r.Violate("C08", "recovery-id-range", "sign", step, "%s: recovery id %d not in [0,3]", ev.sigDesc, v)
		return
	}
	// model verification under d*G
	if !ref.ECDSAVerify(sg.q, ev.e, r, s) {
		w.r.Violate("C08", "model-verify-fails", "sign", step, "%s: (r=%x,s=%x) does not verify under d*G (reference model)", ev.sigDesc, r, s)
		return
	}
	// model recovery
	q2, ok := ref.ECDSARecover(ev.e, r, s, v)
	if !ok || !q2.Eq(sg.q) {
		w.r.Violate("C08", "recovery-id-wrong", "sign", step, "%s: recovery id %d does not recover the signer (reference model)", ev.sigDesc, v)
		return
	}
	w.r.Probe(fmt.Sprintf("recid_%d", v))
	// no other id recovers the signer (sampled: 3 more model recoveries)
	if ev.step%3 == 0 {
		for o := byte(0); o < 4; o++ {
			if o == v {
				continue
			}
			if q3, ok := ref.ECDSARecover(ev.e, r, s, o); ok && q3.Eq(sg.q) {
				w.r.Violate("C08", "recovery-id-ambiguous", "sign", step, "%s: id %d also recovers the signer (emitted %d)", ev.sigDesc, o, v)
			}
		}
		w.r.Probe("other_ids_checked")
	}
	// library agrees: VerifyRaw, Verify in every encoding with both
	// malleability settings, RecoverPublicKey
	rs, ss := mustScalar(r), mustScalar(s)
	pub := sg.priv.PublicKey()
	if !pub.VerifyRaw(ev.digest, rs, ss) {
		w.r.Violate("C08", "lib-verify-rejects", "VerifyRaw", step, "%s: VerifyRaw rejects the signer's own signature", ev.sigDesc)
	}
	if !pub.Verify(ev.digest, secec.BuildASN1Signature(rs, ss), nil) {
		w.r.Violate("C08", "lib-verify-rejects", "Verify(nil opts)", step, "%s: Verify(ASN.1, nil opts) rejects the signer's own signature", ev.sigDesc)
	}
	if h, ok := hashForLen(len(ev.digest)); ok {
		encs := []struct {
			e   secec.SignatureEncoding
			sig []byte
		}{
			{secec.EncodingASN1, secec.BuildASN1Signature(rs, ss)},
			{secec.EncodingCompact, secec.BuildCompactSignature(rs, ss)},
			{secec.EncodingCompactRecoverable, secec.BuildCompactRecoverableSignature(rs, ss, v)},
		}
		for _, en := range encs {
			for _, rm := range []bool{false, true} {
				// one caller-owned options object, rewritten for every call
				o := &w.verifyOpts
				o.Hash, o.Encoding, o.RejectMalleable, o.SelfVerify = h, en.e, rm, false
				if w.offerElsewhere {
					// the signature is first offered to the same key object
					// for another digest (whatever the answer - that is
					// C07's business - it must not colour the next one)
					other := append([]byte(nil), ev.digest...)
					other[len(other)-1] ^= 0x01
					_ = protect(func() { _ = pub.Verify(other, en.sig, o) })
				}
				if !pub.Verify(ev.digest, en.sig, o) {
					w.r.Violate("C08", "lib-verify-rejects", fmt.Sprintf("Verify:enc=%d:rejmal=%v", en.e, rm), step, "%s: Verify(enc=%d, RejectMalleable=%v) rejects the signer's own signature %x", ev.sigDesc, en.e, rm, en.sig)
				}
			}
		}
		if len(ev.digest) == 32 {
			der := append(secec.BuildASN1Signature(rs, ss), 0x01)
			if !bitcoin.VerifyASN1(pub, ev.digest, der) {
				w.r.Violate("C08", "lib-verify-rejects", "bitcoin.VerifyASN1", step, "%s: bitcoin.VerifyASN1 rejects the signer's own signature", ev.sigDesc)
			}
		}
	}
	rq, err := secec.RecoverPublicKey(ev.digest, rs, ss, v)
	if err != nil || !bytes.Equal(rq.Bytes(), sg.qBytes) {
		w.r.Violate("C08", "lib-recover-disagrees", "RecoverPublicKey", step, "%s: RecoverPublicKey(v=%d) err=%v does not return the signer", ev.sigDesc, v, err)
	}
}

// checkSelfVerifyInvariance: SelfVerify on/off gives identical bytes.
func (w *World) checkSelfVerifyInvariance(ev *sigEvent) {
	h, ok := hashForLen(len(ev.digest))
	if !ok {
		return
	}
	sg := w.keys[ev.key]
	var outs [2][]byte
	for i, sv := range []bool{false, true} {
		var rd io.Reader = secec.RFC6979SHA256()
		if ev.ent != nil {
			rd = scripted(ev.ent)
		}
		o := &secec.ECDSAOptions{Hash: h, Encoding: secec.EncodingCompactRecoverable, SelfVerify: sv}
		var sig []byte
		var err error
		po := protect(func() { sig, err = sg.priv.Sign(rd, ev.digest, o) })
		if po.panicked || err != nil {
			w.r.Violate("C08", "selfverify-changes-output", fmt.Sprintf("SelfVerify=%v", sv), ev.step, "%s: re-signing with SelfVerify=%v failed (err=%v panic=%q) although the same inputs signed before", ev.sigDesc, sv, err, po.panicMsg)
			return
		}
		outs[i] = sig
	}
	want := append(append(ref.I2OSP32(ev.r), ref.I2OSP32(ev.s)...), ev.v)
	if !bytes.Equal(outs[0], outs[1]) || !bytes.Equal(outs[0], want) {
		w.r.Violate("C08", "selfverify-changes-output", "bytes", ev.step, "%s: SelfVerify=false gives %x, SelfVerify=true gives %x, SignRaw gave %x", ev.sigDesc, outs[0], outs[1], want)
	}
	w.r.Probe("selfverify_pairs")
}

// recordAndCheckReuse: C09 no-reuse over the history.
func (w *World) recordAndCheckReuse(ev *sigEvent) {
	sg := w.keys[ev.key]
	k := ref.ExtractNonce(sg.d, ev.e, ev.r, ev.s)
	if k.Sign() == 0 {
		w.r.Violate("C09", "nonce-zero", "sign", ev.step, "%s: extracted nonce is 0", ev.sigDesc)
		return
	}
	nk := new(big.Int).Sub(ref.N, k)
	if nk.Cmp(k) < 0 {
		k = nk
	}
	ev.k = k
	entTag := "rfc6979"
	if ev.ent != nil {
		entTag = hx(ev.ent)
		// RNG-trusting: the nonce must not be the raw entropy
		en := ref.ModN(ref.OS2IP(ev.ent))
		enn := new(big.Int).Sub(ref.N, en)
		if en.Cmp(k) == 0 || enn.Cmp(k) == 0 {
			w.r.Violate("C09", "nonce-equals-entropy", "sign", ev.step, "%s: the nonce is the caller-supplied entropy itself", ev.sigDesc)
		}
	}
	ev.triple = fmt.Sprintf("%x|%x|%s", sg.dBytes, ev.e, entTag)
	idx := len(w.events)
	w.events = append(w.events, ev)

	if j, ok := w.byTriple[ev.triple]; ok {
		o := w.events[j]
		w.r.Probe("equal_triple_pairs")
		if o.r.Cmp(ev.r) != 0 || o.s.Cmp(ev.s) != 0 || o.v != ev.v {
			w.r.Violate("C09", "nondeterministic-nonce", "sign", ev.step, "same (key, e, entropy) signed twice with different results: step %d (r=%x) vs step %d (r=%x)", o.step, o.r, ev.step, ev.r)
		}
		return
	}
	w.byTriple[ev.triple] = idx
	rk, kk := fmt.Sprintf("%x", ev.r), fmt.Sprintf("%x", k)
	if j, ok := w.byR[rk]; ok {
		o := w.events[j]
		w.r.Violate("C09", "nonce-reuse", reuseKind(o, ev, w), ev.step, "two signing events with different (key, e, entropy) share r=%x:\n  step %d: %s\n  step %d: %s", ev.r, o.step, o.sigDesc, ev.step, ev.sigDesc)
	} else if j, ok := w.byK[kk]; ok {
		o := w.events[j]
		w.r.Violate("C09", "nonce-reuse", reuseKind(o, ev, w), ev.step, "two signing events with different (key, e, entropy) share the nonce ±k=%x:\n  step %d: %s\n  step %d: %s", k, o.step, o.sigDesc, ev.step, ev.sigDesc)
	}
	w.byR[rk] = idx
	w.byK[kk] = idx
	// reach: how many comparable pairs differ in exactly one component
	for _, o := range w.events[:idx] {
		sameKey := o.key == ev.key || w.keys[o.key].d.Cmp(sg.d) == 0
		sameE := o.e.Cmp(ev.e) == 0
		sameEnt := (o.ent == nil) == (ev.ent == nil) && bytes.Equal(o.ent, ev.ent)
		switch {
		case sameKey && sameE && !sameEnt:
			w.r.Probe("pairs_differ_only_entropy")
		case sameKey && !sameE && sameEnt:
			w.r.Probe("pairs_differ_only_digest")
		case !sameKey && sameE && sameEnt:
			w.r.Probe("pairs_differ_only_key")
		}
	}
}

func reuseKind(a, b *sigEvent, w *World) string {
	sameKey := w.keys[a.key].d.Cmp(w.keys[b.key].d) == 0
	sameE := a.e.Cmp(b.e) == 0
	sameEnt := (a.ent == nil) == (b.ent == nil) && bytes.Equal(a.ent, b.ent)
	return fmt.Sprintf("samekey=%v,samee=%v,sameentropy=%v", sameKey, sameE, sameEnt)
}

// checkRFC6979: RFC 6979 mode equals the model.
func (w *World) checkRFC6979(ev *sigEvent) {
	sg := w.keys[ev.key]
	want, n := ref.RFC6979Sign(sg.d, ev.digest)
	w.r.Probe("rfc6979_events")
	if n > 1 {
		w.r.Probe("rfc6979_model_rejected_candidates")
	}
	if want.R.Cmp(ev.r) != 0 || want.S.Cmp(ev.s) != 0 || want.V != ev.v {
		w.r.Violate("C09", "rfc6979-mismatch", "sign", ev.step, "%s: got (r=%x s=%x v=%d), RFC 6979 reference gives (r=%x s=%x v=%d)", ev.sigDesc, ev.r, ev.s, ev.v, want.R, want.S, want.V)
	}
}

// ---------------------------------------------------------------- variations

// opVariation re-signs with exactly one of (key, digest, entropy) changed
// relative to an earlier successful event — or with nothing changed.
func (w *World) opVariation(step int) {
	if len(w.events) == 0 {
		w.opSignECDSA(step)
		return
	}
	base := w.events[w.t.Choose("ops", "var.base", len(w.events))]
	if w.t.Chance("ops", "var.latest", 1, 3) {
		// back to back with the event it varies
		base = w.events[len(w.events)-1]
	}
	q := &ecdsaReq{key: base.key, api: apiSignRaw, optsDesc: "-", hashSize: -1, encValid: true, digest: base.digest, reader: rdDevice}
	if w.t.Chance("ops", "var.viaSign", 1, 3) {
		if _, ok := hashForLen(len(base.digest)); ok {
			q.api = apiSign
			w.genOpts("ops", q)
			if q.hashSize >= 0 && q.hashSize != len(base.digest) {
				q.api, q.opts, q.optsDesc, q.hashSize, q.encValid = apiSignRaw, nil, "-", -1, true
			}
		}
	}
	ent := base.ent
	what := w.t.Choose("ops", "var.what", 10)
	if what == 8 && ent == nil {
		what = 2
	}
	if what == 9 {
		// entropy that is not independent of the other two inputs: the
		// digest's leftmost 32 bytes, the private key's encoding, or that of
		// its negation (an entropy stream an attacker chose, or a caller
		// who recycles what it has)
		switch w.t.Choose("ops", "var.corr", 3) {
		case 0:
			ent = append([]byte(nil), base.digest[:32]...)
		case 1:
			ent = append([]byte(nil), w.keys[base.key].dBytes...)
		default:
			ent = ref.I2OSP32(new(big.Int).Sub(ref.N, w.keys[base.key].d))
		}
		w.r.Fault("entropy_equal_to_another_input")
	}
	if what >= 5 && what < 8 && (ent == nil || len(w.keys) < 2 && what != 6) {
		what -= 4 // the correlated changes need caller entropy (and a second key)
	}
	xor32 := func(a, b, c []byte) []byte {
		out := make([]byte, 32)
		for i := range out {
			out[i] = a[i] ^ b[i] ^ c[i]
		}
		return out
	}
	switch what {
	case 5: // another key, and the entropy changed by exactly the XOR difference of the keys
		nk := (base.key + 1 + w.t.Choose("ops", "var.key", len(w.keys)-1)) % len(w.keys)
		ent = xor32(ent, w.keys[base.key].dBytes, w.keys[nk].dBytes)
		q.key = nk
	case 6: // another digest, and the entropy changed by exactly the XOR difference of the digests
		d := append([]byte(nil), base.digest...)
		bit := w.t.Choose("ops", "var.bit", 256)
		d[bit/8] ^= 1 << (bit % 8)
		ent = xor32(ent, base.digest[:32], d[:32])
		q.digest = d
		w.digests = append(w.digests, d)
	case 7: // another key, and the digest changed by exactly the XOR difference of the keys
		nk := (base.key + 1 + w.t.Choose("ops", "var.key", len(w.keys)-1)) % len(w.keys)
		d := append([]byte(nil), base.digest...)
		copy(d, xor32(base.digest[:32], w.keys[base.key].dBytes, w.keys[nk].dBytes))
		q.key, q.digest = nk, d
		w.digests = append(w.digests, d)
	case 8:
		// different entropy, but the same residue modulo the group order (or
		// the field prime): E and E +- n are different 32-byte strings.  When
		// neither fits into 32 bytes the upper half of E is cleared instead,
		// so that a later variation of this event can add the modulus.
		m := ref.N
		if w.t.Chance("ops", "var.modp", 1, 4) {
			m = ref.P
		}
		e := ref.OS2IP(ent)
		switch {
		case e.Cmp(m) >= 0:
			ent = ref.I2OSP32(new(big.Int).Sub(e, m))
			w.r.Fault("entropy_changed_by_a_multiple_of_the_modulus")
		case new(big.Int).Add(e, m).BitLen() <= 256:
			ent = ref.I2OSP32(new(big.Int).Add(e, m))
			w.r.Fault("entropy_changed_by_a_multiple_of_the_modulus")
		default:
			keep := 16
			if m == ref.P {
				keep = 4
			}
			ent = append(make([]byte, 32-keep), ent[32-keep:]...)
		}
	case 0: // nothing changes: must be byte-identical
	case 1: // different key
		if len(w.keys) > 1 {
			q.key = (base.key + 1 + w.t.Choose("ops", "var.key", len(w.keys)-1)) % len(w.keys)
		}
	case 2: // different digest
		d := append([]byte(nil), base.digest...)
		bit := w.t.Choose("ops", "var.bit", 256)
		d[bit/8] ^= 1 << (bit % 8)
		q.digest = d
		w.digests = append(w.digests, d)
	case 3: // different entropy
		if ent != nil {
			ent = append([]byte(nil), ent...)
			bit := w.t.Choose("ops", "var.bit", 256)
			ent[bit/8] ^= 1 << (bit % 8)
		}
	case 4: // same e, different digest bytes: digest tail or +n alias
		if len(base.digest) < 64 {
			q.digest = append(append([]byte(nil), base.digest...), byte(w.t.Choose("ops", "var.tail", 256)))
			if q.api == apiSign {
				q.api, q.opts, q.optsDesc, q.hashSize, q.encValid = apiSignRaw, nil, "-", -1, true
			}
			w.digests = append(w.digests, q.digest)
		}
	}
	w.r.Probe(fmt.Sprintf("variation_%d", what))
	if ent == nil {
		q.reader = rdRFC6979
	} else {
		q.dev = kernel.DevCfg{Payload: kernel.PayScripted, Script: ent, ErrAt: -1, Chunks: w.genChunks("ops")}
		w.r.Fault("replayed_entropy")
	}
	w.runECDSA(step, q)
}

// opWipeKeyBuffer: the caller overwrites the byte slice it once passed to
// NewPrivateKey (keys are immutable: nothing may change), then signs the
// most recent event of that key again with identical inputs.
func (w *World) opWipeKeyBuffer(step int) {
	var cands []int
	for i, k := range w.keys {
		if k.supplied != nil {
			cands = append(cands, i)
		}
	}
	if len(cands) == 0 {
		w.opVariation(step)
		return
	}
	ki := cands[w.t.Choose("ops", "wipe.key", len(cands))]
	sg := w.keys[ki]
	switch w.t.Choose("ops", "wipe.how", 3) {
	case 0:
		for i := range sg.supplied {
			sg.supplied[i] = 0
		}
	case 1:
		for i := range sg.supplied {
			sg.supplied[i] ^= 0xff
		}
	default:
		copy(sg.supplied, w.t.Bytes("ops", "wipe.rnd", len(sg.supplied)))
	}
	sg.supplied = nil
	if sg.suppliedSch != nil {
		for i := range sg.suppliedSch {
			sg.suppliedSch[i] ^= 0x3c
		}
		sg.suppliedSch = nil
		w.r.Fault("caller_overwrites_schnorr_key_buffer")
	}
	w.r.Fault("caller_overwrites_key_buffer")
	w.r.Hist("%d caller overwrites the buffer it passed to NewPrivateKey for key %d", step, ki)
	// ... and whatever the accessors of the key hand out
	kb := sg.priv.Bytes()
	for i := range kb {
		kb[i] ^= 0xa5
	}
	sg.priv.Scalar().Zero()
	pb := sg.priv.PublicKey().Bytes()
	for i := range pb {
		pb[i] = 0
	}
	w.r.Fault("caller_overwrites_accessor_outputs")
	if !bytes.Equal(sg.priv.Bytes(), sg.dBytes) {
		w.r.Violate("C09", "key-follows-caller-buffer", "NewPrivateKey", step, "after the caller overwrote the buffer it had passed to NewPrivateKey and the values its accessors had handed out, key %d reads %x instead of %x", ki, sg.priv.Bytes(), sg.dBytes)
		// the key is no longer the key of the model; the caller imports it
		// again so that the rest of the history has a usable signer
		if np, err := secec.NewPrivateKey(append([]byte(nil), sg.dBytes...)); err == nil {
			sg.priv = np
			sg.sch = bitcoin.NewSchnorrPrivateKeyFromECDSA(np)
		}
		return
	}
	// a BIP-340 signature with the key whose buffers are gone: still the
	// model's (the values its accessors hand out are overwritten as well)
	sb := sg.sch.Bytes()
	for i := range sb {
		sb[i] ^= 0x5a
	}
	xb := sg.sch.PublicKey().Bytes()
	for i := range xb {
		xb[i] = 0xff
	}
	w.runSchnorr(step, ki, w.genMsg("ops"), kernel.DevCfg{Payload: kernel.PayScripted, Script: w.t.Bytes("ops", "wipe.aux", 32), ErrAt: -1}, false)
	// sign the latest event of this key again: identical inputs, identical output
	for i := len(w.events) - 1; i >= 0; i-- {
		ev := w.events[i]
		if ev.key != ki {
			continue
		}
		q := &ecdsaReq{key: ki, api: apiSignRaw, optsDesc: "-", hashSize: -1, encValid: true, digest: ev.digest, reader: rdDevice}
		if ev.ent == nil {
			q.reader = rdRFC6979
		} else {
			q.dev = kernel.DevCfg{Payload: kernel.PayScripted, Script: ev.ent, ErrAt: -1}
		}
		w.runECDSA(step, q)
		w.r.Probe("resigned_after_key_buffer_wipe")
		return
	}
}

// opPreHashBurst: the process pre-hashes messages under several hundred
// distinct domain separators (a wallet that handles many protocols), checked
// against the model's tagged hash; Schnorr signing afterwards must be what it
// was before.
// schemeTags are the tag strings of BIP-340 itself (and neighbours), used as
// caller-chosen pre-hash names.
var schemeTags = []string{"BIP0340/challenge", "BIP0340/aux", "BIP0340/nonce", "BIP0340", "BIP0340/", "TapLeaf", "TapTweak"}

func (w *World) opPreHashBurst(step int) {
	n := 200 + w.t.Choose("ops", "ph.n", 400)
	base := w.t.U64("ops", "ph.base")
	msg := w.genMsg("ops")
	bad := 0
	for i := 0; i < n && bad < 3; i++ {
		name := fmt.Sprintf("verif/%x/%d", base, i)
		if i < len(schemeTags) && base%4 == 0 {
			// a caller may pick any name - also one the scheme itself uses
			name = schemeTags[i]
		}
		var got []byte
		var err error
		po := protect(func() { got, err = bitcoin.PreHashSchnorrMessage(name, msg) })
		if po.panicked || err != nil {
			w.r.Violate("C14", "prehash-failed", "PreHashSchnorrMessage", step, "PreHashSchnorrMessage(%q, %d-byte message) failed: err=%v panic=%q", name, len(msg), err, po.panicMsg)
			bad++
			continue
		}
		if want := ref.TaggedHash(name, msg); !bytes.Equal(got, want) {
			w.r.Probe("prehash_differs_from_tagged_hash")
		}
	}
	w.r.Hist("%d pre-hash burst: %d distinct domain separators", step, n)
	w.r.Fault("many_distinct_domain_separators")
	w.opSchnorr(step)
}

// ---------------------------------------------------------------- Schnorr (C14)

func (w *World) genMsg(stream string) []byte {
	var n int
	switch w.t.Choose(stream, "msg.lenkind", 8) {
	case 0:
		n = 0
	case 1, 2:
		n = 32
	case 3:
		n = 1 + w.t.Choose(stream, "msg.len", 31)
	case 6:
		// around the SHA-256 block and padding boundaries
		n = []int{55, 56, 63, 64, 65, 119, 120, 127, 128, 129, 183, 184, 191, 192, 193}[w.t.Choose(stream, "msg.blk", 15)]
	case 7:
		// long messages, just below / at / just above the sizes a fixed
		// internal buffer would have (header bytes subtracted)
		base := []int{1024, 2048, 4096, 8192}[w.t.Choose(stream, "msg.base", 4)]
		n = base - 136 + w.t.Choose(stream, "msg.delta", 145)
		w.r.Probe("schnorr_long_message")
	default:
		n = w.t.Choose(stream, "msg.len", 201)
	}
	switch w.t.Choose(stream, "msg.kind", 4) {
	case 0:
		return make([]byte, n)
	case 1:
		return bytes.Repeat([]byte{0xff}, n)
	}
	return w.t.Bytes(stream, "msg.rnd", n)
}

func (w *World) opSchnorr(step int) {
	key := w.t.Choose("ops", "key", len(w.keys))
	msg := w.genMsg("ops")
	useNil := w.t.Chance("ops", "sch.nil", 1, 8)
	cfg := w.genDevice("ops", 32)
	w.runSchnorr(step, key, msg, cfg, useNil)
}

func (w *World) opSchnorrVariation(step int) {
	if len(w.schs) == 0 {
		w.opSchnorr(step)
		return
	}
	base := w.schs[w.t.Choose("ops", "svar.base", len(w.schs))]
	key, msg, aux := base.key, base.msg, append([]byte(nil), base.aux...)
	switch w.t.Choose("ops", "svar.what", 7) {
	case 6:
		// aux randomness that is not independent of the other inputs: the
		// private key's encoding, that of its negation, or the message
		switch c := w.t.Choose("ops", "svar.corr", 3); {
		case c == 0:
			aux = append([]byte(nil), w.keys[key].dBytes...)
		case c == 1:
			aux = ref.I2OSP32(new(big.Int).Sub(ref.N, w.keys[key].d))
		default:
			aux = make([]byte, 32)
			copy(aux, msg)
			if len(msg) != 32 && w.t.Bool("ops", "svar.msg32") {
				msg = append([]byte(nil), aux...)
			}
		}
		w.r.Fault("entropy_equal_to_another_input")
	case 4, 5:
		// a strictly shorter message after a longer one, same key (a prefix
		// of the earlier message; what the earlier call left in any buffer
		// the library keeps must not show)
		if len(msg) > 0 {
			cut := 1 + w.t.Choose("ops", "svar.cut", len(msg))
			if cut > 64 && w.t.Bool("ops", "svar.cutsmall") {
				cut = 1 + cut%64
			}
			msg = append([]byte(nil), msg[:len(msg)-cut]...)
			w.r.Probe("schnorr_shorter_message_after_longer")
		}
	case 1:
		if len(w.keys) > 1 {
			key = (key + 1) % len(w.keys)
		}
	case 2:
		msg = append(append([]byte(nil), msg...), 0x01)
	case 3:
		aux[w.t.Choose("ops", "svar.byte", 32)] ^= 0x80
	}
	cfg := kernel.DevCfg{Payload: kernel.PayScripted, Script: aux, ErrAt: -1, Chunks: w.genChunks("ops")}
	w.r.Fault("replayed_entropy")
	w.runSchnorr(step, key, msg, cfg, false)
}

func (w *World) runSchnorr(step, key int, msg []byte, cfg kernel.DevCfg, useNil bool) {
	sg := w.keys[key]
	dev := kernel.NewDevice(cfg)
	w.armReenter(dev)
	var sig []byte
	var err error
	var po callOut
	// the options argument is documented as ignored: BIP-340 signs messages
	// of any length whatever the caller puts there
	optNames := []string{"nil", "crypto.SHA256", "crypto.Hash(0)", "crypto.SHA512", "&ECDSAOptions{}"}
	optVals := []crypto.SignerOpts{nil, crypto.SHA256, crypto.Hash(0), crypto.SHA512, &secec.ECDSAOptions{}}
	oi := w.t.Choose("ops", "sch.opts", 2*len(optVals))
	if oi >= len(optVals) {
		oi = 0
	}
	opts := optVals[oi]
	if len(msg) == 0 {
		// the empty message, as a nil slice or as an empty one
		if msg = []byte{}; w.t.Bool("ops", "sch.nilmsg") {
			msg = nil
			w.r.Probe("schnorr_nil_message")
		}
	}
	lastUse := w.t.Chance("ops", "sch.lastuse", 1, 6)
	run := func() {
		switch {
		case useNil:
			withGlobalRand(dev.Reader(), func() { po = protect(func() { sig, err = sg.sch.Sign(nil, msg, opts) }) })
		case lastUse:
			rd := dev.Reader()
			po = protect(func() { sig, err = schnorrSignLastUse(sg.dBytes, rd, msg, opts) })
		default:
			rd := dev.Reader()
			po = protect(func() { sig, err = sg.sch.Sign(rd, msg, opts) })
		}
	}
	if lastUse && !useNil {
		w.r.Fault("call_is_the_last_use_of_its_key_object")
	}
	if cfg.Helper {
		kernel.OnFreshStack(run)
	} else {
		run()
	}
	dev.Settle()
	w.countDeviceFaults(dev)
	desc := fmt.Sprintf("SchnorrSign key=%d msg=%x opts=%s rand=dev[%s] nil=%v", key, msg, optNames[oi], cfg.Summary(), useNil)
	if lastUse && !useNil {
		desc += " (on a key object imported for this call alone)"
	}
	outcome := "ok"
	if po.panicked {
		outcome = "panic:" + po.panicMsg
	} else if err != nil {
		outcome = "error"
	}
	w.r.Hist("%d %s -> %s sig=%x delivered=%d reads=%d", step, desc, outcome, sig, dev.Delivered, len(dev.Log))
	if po.panicked && po.panicMsg == kernel.DevicePanicMsg && cfg.ErrKind == kernel.ErrPanic {
		w.r.Fault("reader_panicked_and_the_caller_recovered")
		return
	}
	if po.panicked {
		w.r.Violate("C14", "sign-panic", "SchnorrSign", step, "%s panicked: %s", desc, po.panicMsg)
		return
	}
	if err != nil && sig != nil {
		w.r.Violate("C14", "signature-with-error", "SchnorrSign", step, "%s returned an error together with a signature", desc)
	}
	if cfg.ErrAt >= 0 && cfg.ErrAt < 32 {
		w.r.Probe("schnorr_err_before_32")
		if err == nil {
			w.r.Violate("C14", "signed-despite-read-error", "SchnorrSign", step, "%s: device failed after %d bytes, yet a signature was returned", desc, cfg.ErrAt)
		}
		return
	}
	if err != nil {
		if cfg.ErrAt == 32 {
			return
		}
		if dev.MaxEmptyRun() > kernel.PatienceBound {
			w.r.Probe("gave_up_with_an_error_after_a_long_run_of_empty_reads")
			return
		}
		if useNil && cfg.ErrAt >= 0 {
			w.r.Probe("system_source_failed_beyond_byte_32_and_the_call_failed")
			return
		}
		w.r.Violate("C14", "healthy-read-failed", "SchnorrSign", step, "%s: no device error within the first 32 bytes, yet signing failed: %v", desc, err)
		return
	}
	if useNil && dev.Delivered > 32 {
		// the device stands in for the system source and more than the 32
		// aux bytes were taken from it (see the ECDSA case): which 32 were
		// the aux is unknown, so the signature is only verified
		w.r.Probe("system_source_read_beyond_the_32_entropy_bytes")
		if !ref.BIP340Verify(ref.I2OSP32(sg.q.X), msg, sig) {
			w.r.Violate("C14", "model-verify-fails", "SchnorrSign", step, "%s: signature does not verify under the x-only key (reference)", desc)
		}
		return
	}
	if dev.Delivered != 32 {
		w.r.Violate("C14", "entropy-consumption", "SchnorrSign", step, "%s: consumed %d bytes of aux randomness, must be exactly 32", desc, dev.Delivered)
		return
	}
	aux := append([]byte(nil), dev.Bytes[:32]...)
	want, ok := ref.BIP340Sign(sg.d, aux, msg)
	if !ok {
		// k' = 0: probability 2^-256; the model says "fail"
		w.r.Violate("C14", "model-says-fail", "SchnorrSign", step, "%s: BIP-340 says fail (k'=0) but a signature was returned", desc)
		return
	}
	w.r.Probe("schnorr_events")
	w.r.Probe(fmt.Sprintf("schnorr_msglen_mod32_%v", len(msg)%32 == 0))
	// parity case reach: key parity x nonce parity
	w.r.Probe(fmt.Sprintf("schnorr_keyodd_%v", sg.q.IsYOdd()))
	if !bytes.Equal(sig, want) {
		w.r.Violate("C14", "bip340-mismatch", "SchnorrSign", step, "%s:\n  got  %x\n  want %x (BIP-340 reference on the 32 aux bytes actually delivered: %x)", desc, sig, want, aux)
		return
	}
	pkx := ref.I2OSP32(sg.q.X)
	if !ref.BIP340Verify(pkx, msg, sig) {
		w.r.Violate("C14", "model-verify-fails", "SchnorrSign", step, "%s: signature does not verify under the x-only key (reference)", desc)
	}
	var lok bool
	if po := protect(func() { lok = sg.sch.PublicKey().Verify(msg, sig) }); po.panicked {
		w.r.Violate("C14", "verification-panics", "SchnorrVerify", step, "%s: verifying the signer's own signature with the library panicked: %s", desc, po.panicMsg)
	} else if !lok {
		w.r.Violate("C14", "lib-verify-rejects", "SchnorrVerify", step, "%s: the library rejects the signer's own signature", desc)
	}
	w.schs = append(w.schs, &schEvent{key: key, aux: aux, msg: msg, sig: sig, snap: append([]byte(nil), sig...)})
}

// ---------------------------------------------------------------- sampler (C09)

var candClasses = []string{"zero", "one", "n-1", "n", "n+1", "2^256-1", "rand>=n", "rand<n"}

func (w *World) genCandidate(stream string, class int) []byte {
	switch class {
	case 0:
		return make([]byte, 32)
	case 1:
		return ref.I2OSP32(big.NewInt(1))
	case 2:
		return nPlus(-1)
	case 3:
		return nPlus(0)
	case 4:
		return nPlus(1)
	case 5:
		return bytes.Repeat([]byte{0xff}, 32)
	case 6:
		span := new(big.Int).Sub(twoTo256, ref.N)
		v := ref.OS2IP(w.t.Bytes(stream, "cand.rnd", 32))
		v.Mod(v, span)
		return ref.I2OSP32(v.Add(v, ref.N))
	default:
		v := ref.OS2IP(w.t.Bytes(stream, "cand.rnd", 32))
		v.Mod(v, new(big.Int).Sub(ref.N, big.NewInt(1)))
		return ref.I2OSP32(v.Add(v, big.NewInt(1)))
	}
}

// JudgeSampler applies the sampler model to one sampler run.
// cands: the scripted candidates; dev: the device after the call.
func JudgeSampler(r *kernel.Run, step int, how string, cands [][]byte, dev *kernel.Device, got []byte, err error, panicked bool, panicMsg string) {
	desc := fmt.Sprintf("%s cands=%s dev[%s]", how, candDesc(cands), dev.Cfg.Summary())
	if panicked {
		r.Violate("C09", "sampler-panic", how, step, "%s panicked: %s", desc, panicMsg)
		return
	}
	if err != nil && got != nil {
		r.Violate("C09", "scalar-with-error", how, step, "%s returned an error together with a scalar", desc)
	}
	// candidates that were delivered completely and without a device error
	// before their last byte
	limit := len(cands)
	if dev.Cfg.ErrAt >= 0 {
		full := dev.Cfg.ErrAt / 32
		if full < limit {
			limit = full
		}
	}
	idx, val := ref.SampleModel(cands[:limit])
	if err == nil {
		r.Probe("sampler_success")
		if idx < 0 {
			// success although no acceptable candidate was delivered in full
			r.Violate("C09", "sampler-accepts-invalid", how, step, "%s returned %x although none of the fully delivered candidates is in [1,n)", desc, got)
			return
		}
		if ref.OS2IP(got).Cmp(val) != 0 {
			cls := "sampler-wrong-candidate"
			for i := 0; i < idx; i++ {
				red := ref.ModN(ref.OS2IP(cands[i]))
				if red.Cmp(ref.OS2IP(got)) == 0 {
					cls = "sampler-reduces-candidate"
				}
			}
			r.Violate("C09", cls, how, step, "%s returned %x, the first candidate in [1,n) is #%d = %x", desc, got, idx, val)
			return
		}
		if dev.Delivered != 32*(idx+1) {
			r.Violate("C09", "sampler-consumption", how, step, "%s accepted candidate #%d but consumed %d bytes (must be %d)", desc, idx, dev.Delivered, 32*(idx+1))
		}
		if idx > 0 {
			r.ProbeN("sampler_rejected_candidates", idx)
		}
		return
	}
	// error: acceptable only if a device error or an invalid candidate preceded
	r.Probe("sampler_error")
	devErrHit := false
	for _, rec := range dev.Log {
		if rec.Err != 0 {
			devErrHit = true
		}
	}
	if devErrHit {
		return
	}
	if dev.MaxEmptyRun() > kernel.PatienceBound {
		r.Probe("gave_up_with_an_error_after_a_long_run_of_empty_reads")
		return
	}
	if idx == 0 {
		r.Violate("C09", "sampler-spurious-error", how, step, "%s failed (%v) although the first candidate is valid and the device is healthy", desc, err)
	}
}

func candDesc(cands [][]byte) string {
	s := "["
	for i, c := range cands {
		if i > 0 {
			s += " "
		}
		s += hx(c)
	}
	return s + "]"
}

func (w *World) opSampler(step int, viaGenerateKey bool) {
	nc := 1 + w.t.Choose("ops", "samp.n", 10)
	var cands [][]byte
	var script []byte
	for i := 0; i < nc; i++ {
		cl := w.t.Choose("ops", "samp.class", len(candClasses))
		c := w.genCandidate("ops", cl)
		cands = append(cands, c)
		script = append(script, c...)
		w.r.Probe("cand_class_" + candClasses[cl])
	}
	cfg := kernel.DevCfg{Payload: kernel.PayScripted, Script: script, ErrAt: -1, Seed: w.t.U64("ops", "samp.seed"), Chunks: w.genChunks("ops")}
	if w.t.Chance("ops", "samp.fail", 1, 3) {
		cfg.ErrAt = w.t.Choose("ops", "samp.errat", 32*nc+8)
		cfg.ErrKind = 1 + w.t.Choose("ops", "samp.errkind", 3)
		cfg.ErrWithData = w.t.Bool("ops", "samp.errdata")
	}
	// beyond the script the device continues with PRNG bytes: make those
	// candidates known to the model too
	tmp := kernel.NewDevice(kernel.DevCfg{Payload: kernel.PayScripted, Script: script, Seed: cfg.Seed, ErrAt: -1})
	buf := make([]byte, 32*(nc+12))
	_, _ = io.ReadFull(tmp, buf)
	var all [][]byte
	for i := 0; i+32 <= len(buf); i += 32 {
		all = append(all, buf[i:i+32])
	}
	RunSampler(w.r, step, viaGenerateKey, cfg, all)
}

// RunSampler executes one sampler run through the hook or GenerateKey.
func RunSampler(r *kernel.Run, step int, viaGenerateKey bool, cfg kernel.DevCfg, allCands [][]byte) {
	dev := kernel.NewDevice(cfg)
	var got []byte
	var err error
	how := "VerifSampleRandomScalar"
	var po callOut
	if viaGenerateKey {
		how = "GenerateKey"
		withGlobalRand(dev, func() {
			po = protect(func() {
				var k *secec.PrivateKey
				k, err = secec.GenerateKey()
				if k != nil {
					got = k.Bytes()
				}
			})
		})
	} else {
		po = protect(func() {
			var s *secp256k1.Scalar
			s, err = secec.VerifSampleRandomScalar(dev)
			if s != nil {
				got = s.Bytes()
			}
		})
	}
	outcome := "ok"
	if po.panicked {
		outcome = "panic"
	} else if err != nil {
		outcome = "error"
	}
	// record which fault kinds fired
	for _, rec := range dev.Log {
		if rec.Err != 0 {
			r.Fault("read_error")
		} else if rec.N == 0 && rec.Req > 0 {
			r.Fault("zero_length_read")
		} else if rec.N < rec.Req {
			r.Fault("short_read")
		}
	}
	r.Fault("scripted_candidate_stream")
	ncShown := len(allCands)
	if ncShown > 10 {
		ncShown = 10
	}
	r.Hist("%d %s dev[%s] -> %s scalar=%x delivered=%d", step, how, cfg.Summary(), outcome, got, dev.Delivered)
	JudgeSampler(r, step, how, allCands, dev, got, err, po.panicked, po.panicMsg)
}

// ---------------------------------------------------------------- RFC 6979 generator (C09)

func (w *World) opDrbg(step int) {
	x := w.drawPrivScalar("ops", "drbg.x")
	digest := w.genDigest32("ops")
	reads := 1 + w.t.Choose("ops", "drbg.reads", 6)
	RunDrbg(w.r, step, x, digest, reads, w.t.Choose("ops", "drbg.bufmode", 4))
}

// DrbgBufModes names what the caller does with its read buffers.
var DrbgBufModes = [...]string{"fresh buffers, left alone", "one buffer reused, left alone", "fresh buffers, zeroed after use", "one buffer reused, overwritten with 0xff between reads"}

// RunDrbg compares successive generator reads with the model.  bufMode is
// the caller-side fault: what the caller does with the buffers it reads into
// (the generator is a stateful object whose state must not live in, or
// depend on, caller memory).
func RunDrbg(r *kernel.Run, step int, x *big.Int, digest []byte, reads, bufMode int) {
	e, _ := ref.DigestToE(digest)
	model := ref.NewRFC6979(x, digest)
	var rd io.Reader
	po := protect(func() { rd = secec.VerifNewDrbgRFC6979(mustScalar(x), mustScalar(e)) })
	if po.panicked {
		r.Violate("C09", "drbg-panic", "newDrbgRFC6979", step, "newDrbgRFC6979(x=%x,e=%x) panicked: %s", x, e, po.panicMsg)
		return
	}
	reused := make([]byte, 32)
	if bufMode >= 2 {
		r.Fault("caller_overwrites_drbg_read_buffer")
	}
	for i := 1; i <= reads; i++ {
		want := model.Next()
		buf := reused
		if bufMode == 0 || bufMode == 2 {
			buf = make([]byte, 32)
		}
		var n int
		var err error
		po := protect(func() { n, err = rd.Read(buf) })
		got := append([]byte(nil), buf...)
		switch bufMode {
		case 2:
			for j := range buf {
				buf[j] = 0
			}
		case 3:
			for j := range buf {
				buf[j] = 0xff
			}
		}
		r.Hist("%d drbg x=%x e=%x [%s] read#%d -> %x n=%d err=%v panic=%v", step, x, e, DrbgBufModes[bufMode], i, got, n, err, po.panicked)
		if po.panicked || err != nil || n != 32 {
			r.Violate("C09", "drbg-read-failed", fmt.Sprintf("read#%d", i), step, "RFC 6979 generator read #%d: n=%d err=%v panic=%q", i, n, err, po.panicMsg)
			return
		}
		if !bytes.Equal(got, want) {
			r.Violate("C09", "drbg-candidate-mismatch", fmt.Sprintf("read#%d", i), step, "RFC 6979 generator (x=%x, e=%x; caller: %s) read #%d = %x, reference T_%d = %x", x, e, DrbgBufModes[bufMode], i, got, i, want)
			return
		}
		if i > 1 {
			r.Probe("drbg_reads_after_first")
		}
	}
	r.Probe("drbg_runs")
}

// ---------------------------------------------------------------- key-object churn

// opKeyChurn: the caller's key OBJECTS come and go while the keys stay.  A
// few passers-by are imported, used once and dropped; every key of the
// history signs one (digest, entropy) pair; the caller then drops all its key
// objects, the garbage collector runs to completion, and the same keys are
// imported again from their bytes in another order - so that the new objects
// sit where other, dead objects sat.  Everything a key does afterwards must
// be what it did before: the same hedged signature for the same (key, digest,
// entropy), the same Schnorr pair, the BIP-340 signature of the model.  An
// object's address, or whatever a library remembers about objects that are
// gone, is not an input of any of these functions.
func (w *World) opKeyChurn(step int) {
	digest := w.genDigest32("ops")
	ent := w.t.Bytes("ops", "churn.ent", 32)
	m := 1 + w.t.Choose("ops", "churn.passers", 12)
	w.r.Fault("key_objects_dropped_collected_and_imported_again")
	w.r.Hist("%d key churn: %d passers-by, digest=%x entropy=%x", step, m, digest, ent)
	func() {
		for j := 0; j < m; j++ {
			d := w.drawPrivScalar("ops", "churn.d")
			k, err := secec.NewPrivateKey(ref.I2OSP32(d))
			if err != nil {
				continue
			}
			_ = protect(func() {
				_, _, _, _ = k.SignRaw(scripted(ent), digest)
				sk := bitcoin.NewSchnorrPrivateKeyFromECDSA(k)
				_, _ = sk.Sign(scripted(ent), digest, nil)
				_ = k.PublicKey().CompressedBytes()
			})
		}
	}()
	signAll := func() {
		for ki := range w.keys {
			q := &ecdsaReq{key: ki, api: apiSignRaw, optsDesc: "-", hashSize: -1, encValid: true, digest: digest, reader: rdDevice,
				dev: kernel.DevCfg{Payload: kernel.PayScripted, Script: ent, ErrAt: -1}}
			w.runECDSA(step, q)
			w.runSchnorr(step, ki, digest, kernel.DevCfg{Payload: kernel.PayScripted, Script: ent, ErrAt: -1}, false)
		}
	}
	signAll()
	for _, sg := range w.keys {
		sg.priv, sg.sch = nil, nil
	}
	kernel.CollectGarbage(1 + w.t.Choose("ops", "churn.gc", 2))
	rot := w.t.Choose("ops", "churn.rot", len(w.keys))
	for i := range w.keys {
		ki := (i + rot) % len(w.keys)
		sg := w.keys[ki]
		sg.supplied = append([]byte(nil), sg.dBytes...)
		np, err := secec.NewPrivateKey(sg.supplied)
		if err != nil {
			w.r.Violate("HARNESS", "fixture-key-import", "NewPrivateKey", step, "NewPrivateKey rejected scalar %x in [1,n) on re-import: %v", sg.dBytes, err)
			// nothing can proceed without the key
			np, _ = secec.NewPrivateKey(append([]byte(nil), sg.dBytes...))
			if np == nil {
				panic("sign world: a fixture key cannot be imported again")
			}
		}
		sg.priv = np
		sg.sch = bitcoin.NewSchnorrPrivateKeyFromECDSA(np)
		w.checkSchnorrKey(step, fmt.Sprintf("fromECDSA[%d] after the key object was dropped, collected and imported again", ki), sg.sch, sg.d)
		if !bytes.Equal(np.PublicKey().Bytes(), sg.qBytes) {
			w.r.Violate("C08", "wrong-public-key", "NewPrivateKey", step, "key %d imported again: public key %x, model %x", ki, np.PublicKey().Bytes(), sg.qBytes)
		}
	}
	signAll()
	w.r.Probe("key_churn_rounds")
}
